//! C10: two handles on one database (same process, and a second process) - exhaustive sequences.
use crate::common::*;
use crate::sut::*;
use nervusdb::{Db, GraphSnapshot};
use rayon::prelude::*;
use serde_json::json;
use std::collections::BTreeSet;
use std::io::{BufRead, BufReader, Write};
use std::path::Path;
use std::process::{Child, Command, Stdio};

#[derive(Clone, Copy, Debug, PartialEq, Eq)]
enum HOp {
    Open(u8),
    Commit(u8),
    Compact(u8),
    Close(u8),
    Drop(u8),
    /// SIGKILL the process holding handle B (cross-process configuration only)
    KillB,
}

fn hops(cross: bool) -> Vec<HOp> {
    let mut v = Vec::new();
    for h in 0..2u8 {
        v.extend([HOp::Open(h), HOp::Commit(h), HOp::Compact(h), HOp::Close(h), HOp::Drop(h)]);
    }
    if cross {
        v.push(HOp::KillB);
    }
    v
}

/// A handle that lives in this process or in a child process driven over a pipe.
enum Handle {
    Local(Db),
    Remote { child: Child, rx: BufReader<std::process::ChildStdout> },
}

fn commit_node(db: &Db, ext: u64) -> Result<(), String> {
    let mut tx = db.begin_write();
    let l = tx.get_or_create_label("H").map_err(|e| e.to_string())?;
    let n = tx.create_node(ext, l).map_err(|e| e.to_string())?;
    tx.set_node_property(n, "k".into(), nervusdb::PropertyValue::Int(ext as i64)).map_err(|e| e.to_string())?;
    tx.commit().map_err(|e| e.to_string())
}

impl Handle {
    fn send(&mut self, cmd: &str) -> Result<String, String> {
        match self {
            Handle::Remote { child, rx } => {
                let stdin = child.stdin.as_mut().ok_or("no stdin")?;
                writeln!(stdin, "{cmd}").map_err(|e| e.to_string())?;
                stdin.flush().map_err(|e| e.to_string())?;
                let mut line = String::new();
                rx.read_line(&mut line).map_err(|e| e.to_string())?;
                let line = line.trim().to_string();
                if let Some(e) = line.strip_prefix("ERR ") { Err(e.to_string()) } else { Ok(line) }
            }
            _ => Err("not remote".into()),
        }
    }
}

/// Child side: `verif C10 --child hold <base-path>`: opens the database and serves commands.
pub fn c10_child(base: &str) -> i32 {
    let db = match catch(|| Db::open(base)) {
        Ok(Ok(d)) => {
            println!("OK open");
            d
        }
        Ok(Err(e)) => {
            println!("ERR {e}");
            return 0;
        }
        Err(p) => {
            println!("ERR {p}");
            return 0;
        }
    };
    let mut db = Some(db);
    let stdin = std::io::stdin();
    for line in stdin.lock().lines() {
        let Ok(line) = line else { break };
        let mut it = line.split_whitespace();
        match it.next() {
            Some("commit") => {
                let ext: u64 = it.next().and_then(|s| s.parse().ok()).unwrap_or(0);
                match commit_node(db.as_ref().unwrap(), ext) {
                    Ok(()) => println!("OK commit"),
                    Err(e) => println!("ERR {e}"),
                }
            }
            Some("compact") => match db.as_ref().unwrap().compact() {
                Ok(()) => println!("OK compact"),
                Err(e) => println!("ERR {e}"),
            },
            Some("close") => {
                match db.take().unwrap().close() {
                    Ok(()) => println!("OK close"),
                    Err(e) => println!("ERR {e}"),
                }
                return 0;
            }
            Some("drop") => {
                drop(db.take());
                println!("OK drop");
                return 0;
            }
            _ => println!("ERR unknown command"),
        }
    }
    0
}

fn spawn_remote(base: &Path) -> Result<Option<Handle>, String> {
    let exe = std::env::current_exe().map_err(|e| e.to_string())?;
    let mut child = Command::new(exe).arg("C10").arg("--child").arg("hold").arg(base).stdin(Stdio::piped()).stdout(Stdio::piped()).stderr(Stdio::null()).spawn().map_err(|e| e.to_string())?;
    let mut rx = BufReader::new(child.stdout.take().unwrap());
    let mut line = String::new();
    rx.read_line(&mut line).map_err(|e| e.to_string())?;
    if line.starts_with("OK") {
        Ok(Some(Handle::Remote { child, rx }))
    } else {
        let _ = child.wait();
        Ok(None)
    }
}

/// Runs one sequence; returns (violation, label).
fn run_seq(seq: &[HOp], cross: bool) -> (Option<(String, String)>, String) {
    let dir = scratch_dir("c10");
    let _g = ScratchGuard(dir.clone());
    let base = dir.join("g");
    let mut handles: [Option<Handle>; 2] = [None, None];
    let mut accepted: BTreeSet<u64> = BTreeSet::new();
    let mut refused = 0;
    let mut viol: Option<(String, String)> = None;
    for (step, op) in seq.iter().enumerate() {
        let ext = 10 + step as u64;
        match *op {
            HOp::Open(h) => {
                let other_open = handles[1 - h as usize].is_some();
                let res: Result<Option<Handle>, String> = if cross && h == 1 {
                    spawn_remote(&base)
                } else {
                    match catch(|| Db::open(&base)) {
                        Ok(Ok(d)) => Ok(Some(Handle::Local(d))),
                        Ok(Err(_)) => Ok(None),
                        Err(p) => Err(p),
                    }
                };
                match res {
                    Err(e) => {
                        viol = Some(("open_crashed".into(), format!("step {step}: {e}")));
                        break;
                    }
                    Ok(Some(hd)) => {
                        if other_open {
                            handles[h as usize] = Some(hd);
                            viol = Some(("second_handle_opened".into(), format!("step {step}: handle {} opened while handle {} is open on the same files", h, 1 - h)));
                            break;
                        }
                        handles[h as usize] = Some(hd);
                    }
                    Ok(None) => {
                        if !other_open {
                            viol = Some(("open_refused_without_other_handle".into(), format!("step {step}: no handle is open but open was refused")));
                            break;
                        }
                        refused += 1;
                    }
                }
            }
            HOp::Commit(h) | HOp::Compact(h) => {
                let is_commit = matches!(op, HOp::Commit(_));
                let r = match handles[h as usize].as_mut() {
                    Some(Handle::Local(db)) => {
                        if is_commit {
                            commit_node(db, ext)
                        } else {
                            db.compact().map_err(|e| e.to_string())
                        }
                    }
                    Some(hd @ Handle::Remote { .. }) => hd.send(&if is_commit { format!("commit {ext}") } else { "compact".to_string() }).map(|_| ()),
                    None => continue,
                };
                match r {
                    Ok(()) => {
                        if is_commit {
                            accepted.insert(ext);
                        }
                    }
                    Err(e) => {
                        viol = Some(("write_failed".into(), format!("step {step}: {e}")));
                        break;
                    }
                }
            }
            HOp::Close(h) | HOp::Drop(h) => {
                let is_close = matches!(op, HOp::Close(_));
                match handles[h as usize].take() {
                    Some(Handle::Local(db)) => {
                        if is_close {
                            if let Err(e) = db.close() {
                                viol = Some(("close_failed".into(), format!("step {step}: {e}")));
                                break;
                            }
                        } else {
                            drop(db);
                        }
                    }
                    Some(mut hd @ Handle::Remote { .. }) => {
                        let _ = hd.send(if is_close { "close" } else { "drop" });
                        if let Handle::Remote { mut child, .. } = hd {
                            let _ = child.wait();
                        }
                    }
                    None => {}
                }
            }
            HOp::KillB => {
                if let Some(Handle::Remote { mut child, .. }) = handles[1].take() {
                    let _ = child.kill();
                    let _ = child.wait();
                }
            }
        }
    }
    // tear down, then the database must open and contain exactly the accepted commits
    for h in handles.iter_mut() {
        match h.take() {
            Some(Handle::Local(db)) => drop(db),
            Some(Handle::Remote { mut child, .. }) => {
                let _ = child.kill();
                let _ = child.wait();
            }
            None => {}
        }
    }
    if viol.is_none() {
        match catch(|| Db::open(&base)) {
            Ok(Ok(db)) => {
                let snap = db.snapshot();
                let got: BTreeSet<u64> = snap.nodes().filter_map(|i| snap.resolve_external(i)).collect();
                let d = dump_snapshot(&snap, &DumpSpec::default());
                if !d.problems.is_empty() {
                    viol = Some(("final_read_failed".into(), d.problems.join(";")));
                } else if got != accepted {
                    viol = Some(("final_state_differs".into(), format!("nodes {got:?}, accepted commits {accepted:?}")));
                } else if d.nodes.iter().any(|(e, n)| n.p1.get("k") != Some(&format!("Int({e})"))) {
                    viol = Some(("final_state_partial".into(), format!("{:?}", d.nodes)));
                }
            }
            Ok(Err(e)) => viol = Some(("final_open_failed".into(), e.to_string())),
            Err(p) => viol = Some(("final_open_panicked".into(), p)),
        }
    }
    (viol, format!("refused={}", refused.min(2)))
}

pub fn c10(tier: Tier) -> i32 {
    let rep = Report::new("C10", tier);
    rep.rule("all sequences up to the stated length over {open, commit, compact, close, drop} x {handle A, handle B} (operations on a handle that is not open are skipped), in two configurations: both handles in this process, and handle B in a separate process driven over a pipe (plus kill -9 of that process); oracle: a second open while the other handle is open is refused, an open with no handle open succeeds (also after the other process was killed), every accepted commit and nothing else is present at the end; non-trivial = sequences in which a second open was attempted while a handle was open");
    let mut total_reports = Vec::new();
    for cross in [false, true] {
        let ops = hops(cross);
        let depth = if cross { tier.pick(4usize, 5) } else { tier.pick(5usize, 6) };
        // enumerate intent sequences with simple pruning: ops on a never-opened handle are pointless
        let mut frontier: Vec<Vec<HOp>> = vec![vec![]];
        let mut all: Vec<Vec<HOp>> = Vec::new();
        for _ in 0..depth {
            let mut next = Vec::new();
            for s in &frontier {
                // intended state (assuming correct exclusion): which handles could be open
                let mut open = [false, false];
                for o in s {
                    match o {
                        HOp::Open(h) => {
                            if !open[1 - *h as usize] {
                                open[*h as usize] = true;
                            }
                        }
                        HOp::Close(h) | HOp::Drop(h) => open[*h as usize] = false,
                        HOp::KillB => open[1] = false,
                        _ => {}
                    }
                }
                for op in &ops {
                    let ok = match op {
                        HOp::Open(h) => !open[*h as usize],
                        HOp::Commit(h) | HOp::Compact(h) | HOp::Close(h) | HOp::Drop(h) => open[*h as usize],
                        HOp::KillB => open[1],
                    };
                    // symmetry: the first open is always handle A in the in-process configuration
                    if !cross && s.is_empty() && *op != HOp::Open(0) {
                        continue;
                    }
                    if ok {
                        let mut n = s.clone();
                        n.push(*op);
                        next.push(n);
                    }
                }
            }
            all.extend(next.iter().cloned());
            frontier = next;
        }
        // The cross-process configuration forks; a fork that races with another thread's open
        // database file would inherit its descriptor (and with it the advisory lock) until exec,
        // which is an artefact of the harness, so that configuration runs on one thread.
        let t0 = std::time::Instant::now();
        let results: Vec<(Vec<HOp>, Option<(String, String)>, String)> = if cross {
            all.iter()
                .map(|s| {
                    let (v, l) = run_seq(s, cross);
                    (s.clone(), v, l)
                })
                .collect()
        } else {
            all.par_iter()
                .map(|s| {
                    let (v, l) = run_seq(s, cross);
                    (s.clone(), v, l)
                })
                .collect()
        };
        eprintln!("config cross={cross}: {} sequences in {:.1}s", all.len(), t0.elapsed().as_secs_f64());
        let mut n = 0u64;
        for (s, v, l) in results {
            n += 1;
            rep.add_states(1);
            rep.add_traces(1);
            rep.add_transitions(s.len() as u64);
            rep.add_evals(1);
            let contended = {
                let mut open = [false, false];
                let mut c = false;
                for o in &s {
                    match o {
                        HOp::Open(h) => {
                            if open[1 - *h as usize] {
                                c = true;
                            } else {
                                open[*h as usize] = true;
                            }
                        }
                        HOp::Close(h) | HOp::Drop(h) => open[*h as usize] = false,
                        HOp::KillB => open[1] = false,
                        _ => {}
                    }
                }
                c
            };
            if contended {
                rep.add_nontrivial(1);
            }
            match v {
                None => rep.outcome(&format!("{}:exclusive:{l}", if cross { "cross" } else { "local" })),
                Some((class, detail)) => {
                    rep.outcome(&class);
                    let mut kinds_v: Vec<String> = vec![if cross { "cross-process".to_string() } else { "in-process".to_string() }];
                    kinds_v.extend(s.iter().map(|o| format!("{o:?}")));
                    rep.violation(Violation { class, kinds: kinds_v, replay: json!({"engine":"handles","cross_process": cross, "sequence": s.iter().map(|o| format!("{o:?}")).collect::<Vec<_>>()}), detail });
                }
            }
        }
        total_reports.push(json!({"cross_process": cross, "depth": depth, "sequences": n}));
    }
    rep.sample(json!(["Open(0)", "Open(1) -> refused", "Commit(0)", "Close(0)", "Open(1)"]));
    rep.set("configurations", json!(total_reports));
    rep.finish()
}
