//! C10: two handles on one database (same process, and a second process) - exhaustive sequences.
use crate::common::*;
use crate::sut::*;
use nervusdb::{Db, GraphSnapshot};
use rayon::prelude::*;
use serde_json::json;
use std::collections::BTreeSet;
use std::io::{BufRead, BufReader, Write};
use std::path::Path;
use std::process::{Child, Command, Stdio};

#[derive(Clone, Copy, Debug, PartialEq, Eq)]
enum HOp {
    Open(u8),
    Commit(u8),
    Compact(u8),
    Close(u8),
    Drop(u8),
    /// SIGKILL the process holding handle B (cross-process configuration only)
    KillB,
}

/// What is on disk before the first open: nothing, or the leftover of an interrupted creation.
#[derive(Clone, Copy, Debug, PartialEq, Eq)]
enum Init {
    Fresh,
    EmptyNdb,
    ShortNdb,
    ZeroPageNdb,
    EmptyNdbAndWal,
}

fn hops(cross: bool) -> Vec<HOp> {
    let mut v = Vec::new();
    for h in 0..2u8 {
        v.extend([HOp::Open(h), HOp::Commit(h), HOp::Compact(h), HOp::Close(h), HOp::Drop(h)]);
    }
    if cross {
        v.push(HOp::KillB);
    }
    v
}

/// A handle that lives in this process or in a child process driven over a pipe.
enum Handle {
    Local(Db),
    Remote { child: Child, rx: BufReader<std::process::ChildStdout> },
}

fn commit_node(db: &Db, ext: u64) -> Result<(), String> {
    let mut tx = db.begin_write();
    let l = tx.get_or_create_label("H").map_err(|e| e.to_string())?;
    let n = tx.create_node(ext, l).map_err(|e| e.to_string())?;
    tx.set_node_property(n, "k".into(), nervusdb::PropertyValue::Int(ext as i64)).map_err(|e| e.to_string())?;
    tx.commit().map_err(|e| e.to_string())
}

impl Handle {
    fn send(&mut self, cmd: &str) -> Result<String, String> {
        match self {
            Handle::Remote { child, rx } => {
                let stdin = child.stdin.as_mut().ok_or("no stdin")?;
                writeln!(stdin, "{cmd}").map_err(|e| e.to_string())?;
                stdin.flush().map_err(|e| e.to_string())?;
                let mut line = String::new();
                rx.read_line(&mut line).map_err(|e| e.to_string())?;
                let line = line.trim().to_string();
                if let Some(e) = line.strip_prefix("ERR ") { Err(e.to_string()) } else { Ok(line) }
            }
            _ => Err("not remote".into()),
        }
    }
}

/// Child side: `verif C10 --child hold <base-path>`: opens the database and serves commands.
pub fn c10_child(base: &str) -> i32 {
    let db = match catch(|| Db::open(base)) {
        Ok(Ok(d)) => {
            println!("OK open");
            d
        }
        Ok(Err(e)) => {
            println!("ERR {e}");
            return 0;
        }
        Err(p) => {
            println!("ERR {p}");
            return 0;
        }
    };
    let mut db = Some(db);
    let stdin = std::io::stdin();
    for line in stdin.lock().lines() {
        let Ok(line) = line else { break };
        let mut it = line.split_whitespace();
        match it.next() {
            Some("commit") => {
                let ext: u64 = it.next().and_then(|s| s.parse().ok()).unwrap_or(0);
                match commit_node(db.as_ref().unwrap(), ext) {
                    Ok(()) => println!("OK commit"),
                    Err(e) => println!("ERR {e}"),
                }
            }
            Some("compact") => match db.as_ref().unwrap().compact() {
                Ok(()) => println!("OK compact"),
                Err(e) => println!("ERR {e}"),
            },
            Some("close") => {
                match db.take().unwrap().close() {
                    Ok(()) => println!("OK close"),
                    Err(e) => println!("ERR {e}"),
                }
                return 0;
            }
            Some("drop") => {
                drop(db.take());
                println!("OK drop");
                return 0;
            }
            _ => println!("ERR unknown command"),
        }
    }
    0
}

fn spawn_remote(base: &Path) -> Result<Option<Handle>, String> {
    let exe = std::env::current_exe().map_err(|e| e.to_string())?;
    let mut child = Command::new(exe).arg("C10").arg("--child").arg("hold").arg(base).stdin(Stdio::piped()).stdout(Stdio::piped()).stderr(Stdio::null()).spawn().map_err(|e| e.to_string())?;
    let mut rx = BufReader::new(child.stdout.take().unwrap());
    let mut line = String::new();
    rx.read_line(&mut line).map_err(|e| e.to_string())?;
    if line.starts_with("OK") {
        Ok(Some(Handle::Remote { child, rx }))
    } else {
        let _ = child.wait();
        Ok(None)
    }
}

/// Runs one sequence; returns (violation, label).
fn run_seq(seq: &[HOp], cross: bool, init: Init) -> (Option<(String, String)>, String) {
    let dir = scratch_dir("c10");
    let _g = ScratchGuard(dir.clone());
    let base = dir.join("g");
    match init {
        Init::Fresh => {}
        Init::EmptyNdb => std::fs::write(dir.join("g.ndb"), b"").expect("leftover"),
        Init::ShortNdb => std::fs::write(dir.join("g.ndb"), vec![0x4eu8; 100]).expect("leftover"),
        Init::ZeroPageNdb => std::fs::write(dir.join("g.ndb"), vec![0u8; 8192]).expect("leftover"),
        Init::EmptyNdbAndWal => {
            std::fs::write(dir.join("g.ndb"), b"").expect("leftover");
            std::fs::write(dir.join("g.wal"), b"").expect("leftover");
        }
    }
    let mut handles: [Option<Handle>; 2] = [None, None];
    let mut accepted: BTreeSet<u64> = BTreeSet::new();
    let mut refused = 0;
    let mut viol: Option<(String, String)> = None;
    for (step, op) in seq.iter().enumerate() {
        let ext = 10 + step as u64;
        match *op {
            HOp::Open(h) => {
                let other_open = handles[1 - h as usize].is_some();
                let res: Result<Option<Handle>, String> = if cross && h == 1 {
                    spawn_remote(&base)
                } else {
                    match catch(|| Db::open(&base)) {
                        Ok(Ok(d)) => Ok(Some(Handle::Local(d))),
                        Ok(Err(_)) => Ok(None),
                        Err(p) => Err(p),
                    }
                };
                match res {
                    Err(e) => {
                        viol = Some(("open_crashed".into(), format!("step {step}: {e}")));
                        break;
                    }
                    Ok(Some(hd)) => {
                        if other_open {
                            handles[h as usize] = Some(hd);
                            viol = Some(("second_handle_opened".into(), format!("step {step}: handle {} opened while handle {} is open on the same files", h, 1 - h)));
                            break;
                        }
                        handles[h as usize] = Some(hd);
                    }
                    Ok(None) => {
                        if !other_open {
                            viol = Some(("open_refused_without_other_handle".into(), format!("step {step}: no handle is open but open was refused")));
                            break;
                        }
                        refused += 1;
                    }
                }
            }
            HOp::Commit(h) | HOp::Compact(h) => {
                let is_commit = matches!(op, HOp::Commit(_));
                let r = match handles[h as usize].as_mut() {
                    Some(Handle::Local(db)) => {
                        if is_commit {
                            commit_node(db, ext)
                        } else {
                            db.compact().map_err(|e| e.to_string())
                        }
                    }
                    Some(hd @ Handle::Remote { .. }) => hd.send(&if is_commit { format!("commit {ext}") } else { "compact".to_string() }).map(|_| ()),
                    None => continue,
                };
                match r {
                    Ok(()) => {
                        if is_commit {
                            accepted.insert(ext);
                        }
                    }
                    Err(e) => {
                        viol = Some(("write_failed".into(), format!("step {step}: {e}")));
                        break;
                    }
                }
            }
            HOp::Close(h) | HOp::Drop(h) => {
                let is_close = matches!(op, HOp::Close(_));
                match handles[h as usize].take() {
                    Some(Handle::Local(db)) => {
                        if is_close {
                            if let Err(e) = db.close() {
                                viol = Some(("close_failed".into(), format!("step {step}: {e}")));
                                break;
                            }
                        } else {
                            drop(db);
                        }
                    }
                    Some(mut hd @ Handle::Remote { .. }) => {
                        let _ = hd.send(if is_close { "close" } else { "drop" });
                        if let Handle::Remote { mut child, .. } = hd {
                            let _ = child.wait();
                        }
                    }
                    None => {}
                }
            }
            HOp::KillB => {
                if let Some(Handle::Remote { mut child, .. }) = handles[1].take() {
                    let _ = child.kill();
                    let _ = child.wait();
                }
            }
        }
    }
    // tear down, then the database must open and contain exactly the accepted commits
    for h in handles.iter_mut() {
        match h.take() {
            Some(Handle::Local(db)) => drop(db),
            Some(Handle::Remote { mut child, .. }) => {
                let _ = child.kill();
                let _ = child.wait();
            }
            None => {}
        }
    }
    if viol.is_none() {
        match catch(|| Db::open(&base)) {
            Ok(Ok(db)) => {
                let snap = db.snapshot();
                let got: BTreeSet<u64> = snap.nodes().filter_map(|i| snap.resolve_external(i)).collect();
                let d = dump_snapshot(&snap, &DumpSpec::default());
                if !d.problems.is_empty() {
                    viol = Some(("final_read_failed".into(), d.problems.join(";")));
                } else if got != accepted {
                    viol = Some(("final_state_differs".into(), format!("nodes {got:?}, accepted commits {accepted:?}")));
                } else if d.nodes.iter().any(|(e, n)| n.p1.get("k") != Some(&format!("Int({e})"))) {
                    viol = Some(("final_state_partial".into(), format!("{:?}", d.nodes)));
                }
            }
            Ok(Err(e)) => viol = Some(("final_open_failed".into(), e.to_string())),
            Err(p) => viol = Some(("final_open_panicked".into(), p)),
        }
    }
    (viol, format!("refused={}", refused.min(2)))
}

pub fn c10(tier: Tier) -> i32 {
    let rep = Report::new("C10", tier);
    rep.rule("all sequences up to the stated length over {open, commit, compact, close, drop} x {handle A, handle B} (operations on a handle that is not open are skipped), in two configurations: both handles in this process, and handle B in a separate process driven over a pipe (plus kill -9 of that process); oracle: a second open while the other handle is open is refused, an open with no handle open succeeds (also after the other process was killed), every accepted commit and nothing else is present at the end; the in-process sequences are also started from four leftovers of an interrupted creation (0-byte, 100-byte, one zero page .ndb, empty .ndb + .wal); plus a concurrent configuration under the controlled scheduler (owner thread committing twice || a second Db::open, every I/O step a scheduling point, all schedules up to the preemption bound): the open is refused and a copy of the files taken afterwards (the owner killed without close) recovers every acknowledged commit; non-trivial = sequences in which a second open was attempted while a handle was open");
    let mut total_reports = Vec::new();
    for cross in [false, true] {
        let ops = hops(cross);
        let depth = if cross { tier.pick(4usize, 5) } else { tier.pick(5usize, 6) };
        // enumerate intent sequences with simple pruning: ops on a never-opened handle are pointless
        let mut frontier: Vec<Vec<HOp>> = vec![vec![]];
        let mut all: Vec<Vec<HOp>> = Vec::new();
        for _ in 0..depth {
            let mut next = Vec::new();
            for s in &frontier {
                // intended state (assuming correct exclusion): which handles could be open
                let mut open = [false, false];
                for o in s {
                    match o {
                        HOp::Open(h) => {
                            if !open[1 - *h as usize] {
                                open[*h as usize] = true;
                            }
                        }
                        HOp::Close(h) | HOp::Drop(h) => open[*h as usize] = false,
                        HOp::KillB => open[1] = false,
                        _ => {}
                    }
                }
                for op in &ops {
                    let ok = match op {
                        HOp::Open(h) => !open[*h as usize],
                        HOp::Commit(h) | HOp::Compact(h) | HOp::Close(h) | HOp::Drop(h) => open[*h as usize],
                        HOp::KillB => open[1],
                    };
                    // symmetry: the first open is always handle A in the in-process configuration
                    if !cross && s.is_empty() && *op != HOp::Open(0) {
                        continue;
                    }
                    if ok {
                        let mut n = s.clone();
                        n.push(*op);
                        next.push(n);
                    }
                }
            }
            all.extend(next.iter().cloned());
            frontier = next;
        }
        // The cross-process configuration forks; a fork that races with another thread's open
        // database file would inherit its descriptor (and with it the advisory lock) until exec,
        // which is an artefact of the harness, so that configuration runs on one thread.
        let t0 = std::time::Instant::now();
        let results: Vec<(Vec<HOp>, Option<(String, String)>, String)> = if cross {
            all.iter()
                .map(|s| {
                    let (v, l) = run_seq(s, cross, Init::Fresh);
                    (s.clone(), v, l)
                })
                .collect()
        } else {
            all.par_iter()
                .map(|s| {
                    let (v, l) = run_seq(s, cross, Init::Fresh);
                    (s.clone(), v, l)
                })
                .collect()
        };
        // the in-process sequences (one level shallower) also start from leftovers of an interrupted creation
        if !cross {
            let shallow: Vec<&Vec<HOp>> = all.iter().filter(|s| s.len() < depth).collect();
            let mut n_left = 0u64;
            for init in [Init::EmptyNdb, Init::ShortNdb, Init::ZeroPageNdb, Init::EmptyNdbAndWal] {
                let rs: Vec<(Vec<HOp>, Option<(String, String)>)> = shallow.par_iter().map(|s| ((*s).clone(), run_seq(s, false, init).0)).collect();
                for (s, v) in rs {
                    n_left += 1;
                    rep.add_states(1);
                    rep.add_traces(1);
                    rep.add_transitions(s.len() as u64);
                    if s.iter().filter(|o| matches!(o, HOp::Open(_))).count() >= 2 {
                        rep.add_nontrivial(1);
                    }
                    if let Some((class, detail)) = v {
                        rep.outcome(&class);
                        let mut kinds_v: Vec<String> = vec!["in-process".to_string(), format!("init:{init:?}")];
                        kinds_v.extend(s.iter().map(|o| format!("{o:?}")));
                        rep.violation(Violation { class, kinds: kinds_v, replay: json!({"engine":"handles","init": format!("{init:?}"), "sequence": s.iter().map(|o| format!("{o:?}")).collect::<Vec<_>>()}), detail });
                    } else {
                        rep.outcome(&format!("local:{init:?}:exclusive"));
                    }
                }
            }
            total_reports.push(json!({"leftover_initial_states": 4, "sequences": n_left}));
        }
        eprintln!("config cross={cross}: {} sequences in {:.1}s", all.len(), t0.elapsed().as_secs_f64());
        let mut n = 0u64;
        for (s, v, l) in results {
            n += 1;
            rep.add_states(1);
            rep.add_traces(1);
            rep.add_transitions(s.len() as u64);
            rep.add_evals(1);
            let contended = {
                let mut open = [false, false];
                let mut c = false;
                for o in &s {
                    match o {
                        HOp::Open(h) => {
                            if open[1 - *h as usize] {
                                c = true;
                            } else {
                                open[*h as usize] = true;
                            }
                        }
                        HOp::Close(h) | HOp::Drop(h) => open[*h as usize] = false,
                        HOp::KillB => open[1] = false,
                        _ => {}
                    }
                }
                c
            };
            if contended {
                rep.add_nontrivial(1);
            }
            match v {
                None => rep.outcome(&format!("{}:exclusive:{l}", if cross { "cross" } else { "local" })),
                Some((class, detail)) => {
                    rep.outcome(&class);
                    let mut kinds_v: Vec<String> = vec![if cross { "cross-process".to_string() } else { "in-process".to_string() }];
                    kinds_v.extend(s.iter().map(|o| format!("{o:?}")));
                    rep.violation(Violation { class, kinds: kinds_v, replay: json!({"engine":"handles","cross_process": cross, "sequence": s.iter().map(|o| format!("{o:?}")).collect::<Vec<_>>()}), detail });
                }
            }
        }
        total_reports.push(json!({"cross_process": cross, "depth": depth, "sequences": n}));
    }
    // (c) a refused open must have no effect even when it arrives in the middle of the owner's commit:
    // owner thread commits two transactions, a second thread attempts Db::open; every schedule with at most
    // the stated number of preemptions, every I/O step of the commit being a scheduling point
    {
        use crate::sched::{self, Body, Exec};
        use std::sync::{Arc, Mutex};
        let bound = tier.pick(1, 2);
        let stats = sched::explore(bound, true, tier.pick(20_000, 400_000), || {
            let dir = scratch_dir("c10s");
            let base = dir.join("g");
            let db = Arc::new(Db::open(&base).expect("open"));
            commit_node(&db, 10).expect("first commit");
            let acked: Arc<Mutex<Vec<u64>>> = Arc::new(Mutex::new(vec![10]));
            let second: Arc<Mutex<Option<bool>>> = Arc::new(Mutex::new(None));
            let mut bodies: Vec<Body> = Vec::new();
            {
                let (db, acked) = (db.clone(), acked.clone());
                bodies.push(Box::new(move || {
                    for ext in [11u64, 12] {
                        if commit_node(&db, ext).is_ok() {
                            acked.lock().unwrap().push(ext);
                        }
                    }
                }));
            }
            {
                let (base, second) = (base.clone(), second.clone());
                bodies.push(Box::new(move || {
                    let r = Db::open(&base);
                    *second.lock().unwrap() = Some(r.is_ok());
                    drop(r);
                }));
            }
            let rep = &rep;
            let check = move |x: &Exec| {
                let _g = ScratchGuard(dir.clone());
                // the owner handle stays open until the verdict (it must outlive the second thread's attempt)
                let _owner = db;
                rep.add_states(1);
                rep.add_traces(1);
                rep.add_transitions(x.points.len() as u64);
                rep.add_nontrivial(1);
                let kinds_v: Vec<String> = std::iter::once("concurrent_open".to_string()).chain(x.points.iter().filter(|p| p.chosen_idx != 0 && p.running_enabled).map(|p| format!("preempt@{}", p.site))).collect();
                let replay = json!({"engine":"sched","harness":"owner commits x2 || second Db::open","schedule": x.choices});
                if x.diverged || x.horizon_hit {
                    rep.bump("machinery_diverged", 1);
                    return;
                }
                if let Some(d) = &x.deadlock {
                    rep.violation(Violation { class: "deadlock".into(), kinds: kinds_v, replay, detail: d.clone() });
                    return;
                }
                if let Some(Err(e)) = x.thread_results.iter().find(|r| r.is_err()) {
                    rep.violation(Violation { class: "thread_panicked".into(), kinds: kinds_v, replay, detail: e.clone() });
                    return;
                }
                if *second.lock().unwrap() == Some(true) {
                    rep.outcome("second_handle_opened");
                    rep.violation(Violation { class: "second_handle_opened".into(), kinds: kinds_v, replay, detail: "Db::open succeeded while the owner handle is open and committing".into() });
                    return;
                }
                // the owner process dies without close (a graceful drop would rewrite the log from memory):
                // recover a copy of the files as they are now; everything acknowledged must be there
                let want: BTreeSet<u64> = acked.lock().unwrap().iter().copied().collect();
                let img = dir.join("image");
                let _ = std::fs::create_dir_all(&img);
                for f in ["g.ndb", "g.wal"] {
                    let _ = std::fs::copy(dir.join(f), img.join(f));
                }
                let base = img.join("g");
                match catch(|| Db::open(&base)) {
                    Ok(Ok(d2)) => {
                        let snap = d2.snapshot();
                        // a node counts only with its property (the node table is written outside the log)
                        let got: BTreeSet<u64> = snap.nodes().filter_map(|i| snap.resolve_external(i).filter(|e| snap.node_property(i, "k") == Some(nervusdb::PropertyValue::Int(*e as i64)))).collect();
                        let bare: Vec<u64> = snap.nodes().filter_map(|i| snap.resolve_external(i)).filter(|e| !got.contains(e)).collect();
                        if got != want || !bare.is_empty() {
                            rep.outcome("refused_open_damaged_database");
                            rep.violation(Violation { class: "refused_open_damaged_database:acknowledged_commit_lost".into(), kinds: kinds_v, replay, detail: format!("complete nodes after reopen {got:?} (nodes without their property: {bare:?}), acknowledged {want:?}") });
                        } else {
                            rep.outcome("concurrent:refused_without_effect");
                        }
                    }
                    Ok(Err(e)) => rep.violation(Violation { class: "refused_open_damaged_database:reopen_fails".into(), kinds: kinds_v, replay, detail: e.to_string() }),
                    Err(p) => rep.violation(Violation { class: "refused_open_damaged_database:reopen_panics".into(), kinds: kinds_v, replay, detail: p }),
                }
            };
            (bodies, check)
        });
        if stats.capped {
            rep.not_exhaustive("schedule cap hit in the concurrent configuration");
        }
        total_reports.push(json!({"concurrent_refused_open": {"preemption_bound": bound, "schedules": stats.schedules, "scheduling_points": stats.points, "max_points_per_schedule": stats.max_points}}));
    }
    rep.sample(json!(["Open(0)", "Open(1) -> refused", "Commit(0)", "Close(0)", "Open(1)"]));
    rep.set("configurations", json!(total_reports));
    rep.finish()
}
