//! Checks decided by the controlled scheduler: C09 (lost updates), C03 (snapshot consistency and
//! stability), C35 (deadlock freedom), C29 (backup consistency under concurrency).
use crate::capi::CDb;
use crate::common::*;
use crate::sched::{self, Body, Exec};
use crate::sut::*;
use nervusdb::{GraphSnapshot, GraphStore, PropertyValue as PV};
use nervusdb_query::WriteableGraph;
use nervusdb_storage::engine::GraphEngine;
use serde_json::json;
use std::collections::{BTreeMap, BTreeSet};
use std::sync::atomic::{AtomicUsize, Ordering};
use std::sync::{Arc, Mutex};

fn sched_desc(x: &Exec) -> Vec<String> {
    // compact schedule description: only the points where a deviation happened
    let mut out = Vec::new();
    for (i, p) in x.points.iter().enumerate() {
        if p.chosen_idx != 0 {
            out.push(format!("#{i}@{}:T{}->T{}", p.site, p.by.map(|b| b as i64).unwrap_or(-1), p.enabled[p.chosen_idx]));
        }
    }
    out
}

fn preemption_sites(x: &Exec) -> Vec<String> {
    x.points.iter().filter(|p| p.chosen_idx != 0 && p.running_enabled).map(|p| format!("preempt@{}", p.site)).collect()
}

// ---------------------------------------------------------------------------------------------
// C09 Concurrent auto-commit writes lose no updates
// ---------------------------------------------------------------------------------------------

#[derive(Clone, Copy, Debug, PartialEq)]
enum Stmt {
    Inc,
    CondSet(i64),
    CondCreate(i64),
    /// MERGE (:Item {t: ..}): must find the node a concurrent statement just committed
    MergeItem(i64),
    /// ndb_compact on the shared handle (no logical effect; a concurrent maintenance call)
    Compact,
}

impl Stmt {
    fn cypher(&self) -> String {
        match self {
            Stmt::Inc => "MATCH (c:Ctr) SET c.v = c.v + 1".into(),
            Stmt::CondSet(t) => format!("MATCH (c:Ctr) WHERE c.v = 0 SET c.v = 1, c.w = {t}"),
            Stmt::CondCreate(t) => format!("MATCH (c:Ctr) WHERE c.v < 2 CREATE (:Item {{t: {t}}})"),
            Stmt::MergeItem(t) => format!("MERGE (:Item {{t: {t}}})"),
            Stmt::Compact => "<ndb_compact>".into(),
        }
    }
    fn apply(&self, st: &mut (i64, i64, Vec<i64>)) {
        match self {
            Stmt::Inc => st.0 += 1,
            Stmt::CondSet(t) => {
                if st.0 == 0 {
                    st.0 = 1;
                    st.1 = *t;
                }
            }
            Stmt::CondCreate(t) => {
                if st.0 < 2 {
                    st.2.push(*t);
                }
            }
            Stmt::MergeItem(t) => {
                if !st.2.contains(t) {
                    st.2.push(*t);
                }
            }
            Stmt::Compact => {}
        }
    }
    fn kind(&self) -> &'static str {
        match self {
            Stmt::Inc => "Inc",
            Stmt::CondSet(_) => "CondSet",
            Stmt::CondCreate(_) => "CondCreate",
            Stmt::MergeItem(_) => "MergeItem",
            Stmt::Compact => "Compact",
        }
    }
}

/// All serial orders (interleavings at statement granularity) of the per-thread programs.
fn serial_outcomes(progs: &[Vec<Stmt>], ok: &[Vec<bool>]) -> BTreeSet<(i64, i64, Vec<i64>)> {
    fn rec(progs: &[Vec<Stmt>], ok: &[Vec<bool>], pos: &mut Vec<usize>, st: (i64, i64, Vec<i64>), out: &mut BTreeSet<(i64, i64, Vec<i64>)>) {
        let mut any = false;
        for t in 0..progs.len() {
            if pos[t] < progs[t].len() {
                any = true;
                let mut s2 = st.clone();
                if ok[t][pos[t]] {
                    progs[t][pos[t]].apply(&mut s2);
                }
                pos[t] += 1;
                rec(progs, ok, pos, s2, out);
                pos[t] -= 1;
            }
        }
        if !any {
            let mut s = st;
            s.2.sort();
            out.insert(s);
        }
    }
    let mut out = BTreeSet::new();
    rec(progs, ok, &mut vec![0; progs.len()], (0, 0, vec![]), &mut out);
    out
}

pub fn c09(tier: Tier) -> i32 {
    let rep = Report::new("C09", tier);
    rep.rule("each harness = 2 (quick) or up to 3 (thorough) threads issuing 1-2 read-modify-write statements (increment, conditional set, conditional create, MERGE of one key) through ndb_execute_write on one shared graph; ALL schedules with at most the stated number of preemptions are executed on the real code under the cooperative scheduler (points: every lock acquisition and every publication step of snapshot / begin_write / commit); oracle: the final (c.v, c.w, items) equals the result of some serial order of the statements that reported success; non-trivial = schedules with at least one preemption");
    let configs: Vec<Vec<Vec<Stmt>>> = {
        let mut c = vec![
            vec![vec![Stmt::Inc], vec![Stmt::Inc]],
            vec![vec![Stmt::CondSet(1)], vec![Stmt::CondSet(2)]],
            vec![vec![Stmt::Inc], vec![Stmt::CondCreate(2)]],
            vec![vec![Stmt::Inc, Stmt::Inc], vec![Stmt::Inc]],
            vec![vec![Stmt::Inc, Stmt::Inc], vec![Stmt::Compact]],
            vec![vec![Stmt::MergeItem(7)], vec![Stmt::MergeItem(7)]],
            vec![vec![Stmt::MergeItem(7), Stmt::Inc], vec![Stmt::MergeItem(7)]],
        ];
        if tier == Tier::Thorough {
            c.push(vec![vec![Stmt::Inc], vec![Stmt::Inc], vec![Stmt::Inc]]);
            c.push(vec![vec![Stmt::Inc], vec![Stmt::Inc], vec![Stmt::Compact]]);
            c.push(vec![vec![Stmt::Inc, Stmt::Compact], vec![Stmt::CondSet(2), Stmt::Inc]]);
            c.push(vec![vec![Stmt::CondSet(1)], vec![Stmt::Inc], vec![Stmt::CondCreate(3)]]);
            c.push(vec![vec![Stmt::Inc, Stmt::CondCreate(1)], vec![Stmt::CondSet(2), Stmt::Inc]]);
        }
        c
    };
    let bound = tier.pick(2, 3);
    rep.set("preemption_bound", json!(bound));
    let mut cfg_reports = Vec::new();
    for progs in &configs {
        let nthreads = progs.len();
        let outcomes: Mutex<BTreeMap<String, u64>> = Mutex::new(BTreeMap::new());
        let stats = sched::explore(bound, false, tier.pick(60_000, 3_000_000), || {
            let dir = scratch_dir("c09");
            let base = dir.join("g");
            let db = Arc::new(CDb::open(&base).expect("open"));
            db.execute_write("CREATE (:Ctr {v: 0, w: 0})", None).expect("setup");
            let oks: Arc<Mutex<Vec<Vec<bool>>>> = Arc::new(Mutex::new(progs.iter().map(|p| vec![false; p.len()]).collect()));
            let errs: Arc<Mutex<Vec<String>>> = Arc::new(Mutex::new(Vec::new()));
            let mut bodies: Vec<Body> = Vec::new();
            for (t, prog) in progs.iter().enumerate() {
                let db = db.clone();
                let prog = prog.clone();
                let oks = oks.clone();
                let errs = errs.clone();
                bodies.push(Box::new(move || {
                    for (i, s) in prog.iter().enumerate() {
                        let r = if *s == Stmt::Compact { db.compact().map(|_| 0) } else { db.execute_write(&s.cypher(), None) };
                        match r {
                            Ok(_) => oks.lock().unwrap()[t][i] = true,
                            Err(e) => errs.lock().unwrap().push(format!("T{t} stmt {i}: {}", e.message)),
                        }
                    }
                }));
            }
            let progs2 = progs.clone();
            let rep = &rep;
            let outcomes = &outcomes;
            let check = move |x: &Exec| {
                let _g = ScratchGuard(dir);
                rep.add_states(1);
                rep.add_traces(1);
                rep.add_transitions(x.points.len() as u64);
                rep.add_evals(1);
                let pre = x.points.iter().filter(|p| p.chosen_idx != 0 && p.running_enabled).count();
                if pre > 0 {
                    rep.add_nontrivial(1);
                }
                let kinds_v: Vec<String> = progs2.iter().map(|p| p.iter().map(|s| s.kind()).collect::<Vec<_>>().join("+")).chain(preemption_sites(x)).collect();
                let replay = json!({"engine":"sched","programs": progs2.iter().map(|p| p.iter().map(|s| s.cypher()).collect::<Vec<_>>()).collect::<Vec<_>>(), "schedule": x.choices, "deviations": sched_desc(x)});
                if let Some(d) = &x.deadlock {
                    rep.violation(Violation { class: "deadlock".into(), kinds: kinds_v, replay, detail: d.clone() });
                    return;
                }
                if x.diverged || x.horizon_hit {
                    rep.bump("machinery_diverged", 1);
                    return;
                }
                if let Some(Err(e)) = x.thread_results.iter().find(|r| r.is_err()) {
                    rep.violation(Violation { class: format!("thread_panicked:{}", truncate(e, 60)), kinds: kinds_v, replay, detail: e.clone() });
                    return;
                }
                let ok = oks.lock().unwrap().clone();
                let got = (|| -> Result<(i64, i64, Vec<i64>), String> {
                    let r = db.query("MATCH (c:Ctr) RETURN c.v AS v, c.w AS w", None).map_err(|e| e.message)?;
                    let row = r.as_array().and_then(|a| a.first()).cloned().ok_or("no counter row")?;
                    let v = row["v"].as_i64().ok_or("v not int")?;
                    let w = row["w"].as_i64().ok_or("w not int")?;
                    let items = db.query("MATCH (i:Item) RETURN i.t AS t", None).map_err(|e| e.message)?;
                    let mut ts: Vec<i64> = items.as_array().map(|a| a.iter().filter_map(|r| r["t"].as_i64()).collect()).unwrap_or_default();
                    ts.sort();
                    Ok((v, w, ts))
                })();
                let errs = errs.lock().unwrap().clone();
                match got {
                    Err(e) => rep.violation(Violation { class: "final_read_failed".into(), kinds: kinds_v, replay, detail: e }),
                    Ok(g) => {
                        let allowed = serial_outcomes(&progs2, &ok);
                        let label = format!("{g:?}");
                        *outcomes.lock().unwrap().entry(label).or_insert(0) += 1;
                        if !allowed.contains(&g) {
                            rep.violation(Violation { class: "not_serializable".into(), kinds: kinds_v, replay, detail: format!("final state {g:?} is not the result of any serial order (allowed: {allowed:?}); statement errors: {errs:?}") });
                        }
                    }
                }
            };
            (bodies, check)
        });
        let oc = outcomes.lock().unwrap().clone();
        for k in oc.keys() {
            rep.outcome(k);
        }
        cfg_reports.push(json!({"threads": nthreads, "programs": progs.iter().map(|p| p.iter().map(|s| s.kind()).collect::<Vec<_>>()).collect::<Vec<_>>(), "schedules": stats.schedules, "max_points": stats.max_points, "capped": stats.capped, "distinct_final_states": oc}));
        if stats.capped {
            rep.not_exhaustive("schedule cap reached for one configuration");
        }
        if stats.diverged > 0 {
            eprintln!("MACHINERY: {} schedules diverged while replaying their prefix", stats.diverged);
            rep.finish();
            return 2;
        }
    }
    rep.sample(json!(cfg_reports.first()));
    rep.set("configurations", json!(cfg_reports));
    rep.assume("Relaxed atomics are explored under sequential consistency; scheduling points are the lock acquisitions and publication steps instrumented in nervusdb-storage (the crates contain no unsafe shared access outside them)");
    rep.finish()
}

// ---------------------------------------------------------------------------------------------
// Storage-level helpers on GraphEngine
// ---------------------------------------------------------------------------------------------

pub fn open_engine(dir: &std::path::Path) -> GraphEngine {
    GraphEngine::open(dir.join("g.ndb"), dir.join("g.wal")).expect("engine open")
}

#[derive(Clone, Debug, PartialEq)]
pub enum WOp {
    /// create node ext with label A, prop k=v, edge to node 1
    TxCreate(u64, i64),
    TxSetProp(u64, i64),
    TxDeleteEdge(u64, u64),
    TxLabel(u64),
    Compact,
    CreateIndex,
}

impl WOp {
    pub fn kind(&self) -> String {
        match self {
            WOp::TxCreate(..) => "TxCreate".into(),
            WOp::TxSetProp(..) => "TxSetProp".into(),
            WOp::TxDeleteEdge(..) => "TxDeleteEdge".into(),
            WOp::TxLabel(..) => "TxLabel".into(),
            WOp::Compact => "Compact".into(),
            WOp::CreateIndex => "CreateIndex".into(),
        }
    }
}

fn iid_of(e: &GraphEngine, ext: u64) -> u32 {
    e.lookup_internal_id(ext).expect("node exists")
}

pub fn apply_wop(e: &GraphEngine, op: &WOp) -> Result<(), String> {
    match op {
        WOp::TxCreate(ext, v) => {
            let mut tx = e.begin_write();
            let l = tx.get_or_create_label("A").map_err(|e| e.to_string())?;
            let r = tx.get_or_create_rel_type("R").map_err(|e| e.to_string())?;
            let n = tx.create_node(*ext, l).map_err(|e| e.to_string())?;
            tx.set_node_property(n, "k".into(), PV::Int(*v));
            if let Some(one) = e.lookup_internal_id(1) {
                tx.create_edge(one, r, n);
                tx.set_edge_property(one, r, n, "k".into(), PV::Int(*v));
            }
            tx.commit().map_err(|e| e.to_string())
        }
        WOp::TxSetProp(ext, v) => {
            let n = iid_of(e, *ext);
            let mut tx = e.begin_write();
            tx.set_node_property(n, "k".into(), PV::Int(*v));
            tx.commit().map_err(|e| e.to_string())
        }
        WOp::TxDeleteEdge(s, d) => {
            let (s, d) = (iid_of(e, *s), iid_of(e, *d));
            let mut tx = e.begin_write();
            let r = tx.get_or_create_rel_type("R").map_err(|e| e.to_string())?;
            tx.tombstone_edge(s, r, d);
            tx.commit().map_err(|e| e.to_string())
        }
        WOp::TxLabel(ext) => {
            let n = iid_of(e, *ext);
            let mut tx = e.begin_write();
            let l = tx.get_or_create_label("B").map_err(|e| e.to_string())?;
            tx.add_node_label(n, l).map_err(|e| e.to_string())?;
            tx.commit().map_err(|e| e.to_string())
        }
        WOp::Compact => e.compact().map_err(|e| e.to_string()),
        WOp::CreateIndex => e.create_index("A", "k").map_err(|e| e.to_string()),
    }
}

fn c03_spec() -> DumpSpec {
    DumpSpec {
        prop_keys: vec!["k".into()],
        rel_types: vec!["R".into()],
        index_probes: (1..=4).map(|v| ("A".to_string(), "k".to_string(), PV::Int(v))).collect(),
        max_iid_probe: 6,
    }
}

/// Base state for the storage-level harnesses: node 1 (A, k=1), node 2 (A, k=2), edge 1->2, compacted once.
fn setup_engine(dir: &std::path::Path, with_index: bool) {
    let e = open_engine(dir);
    if with_index {
        e.create_index("A", "k").unwrap();
    }
    apply_wop(&e, &WOp::TxCreate(1, 1)).unwrap();
    apply_wop(&e, &WOp::TxCreate(2, 2)).unwrap();
    e.compact().unwrap();
}

// ---------------------------------------------------------------------------------------------
// C03 Snapshots are consistent and stable
// ---------------------------------------------------------------------------------------------

pub fn c03(tier: Tier) -> i32 {
    let rep = Report::new("C03", tier);
    rep.rule("one writer thread runs a fixed list of operations (commits, compaction, index creation) on the real engine; one reader thread takes a snapshot at an arbitrary scheduling point (creation explored at full point granularity: every lock acquisition and publication step of begin_read / snapshot / commit / compact), dumps it through every read interface at once (one scheduling block), again after the writer's next operation, and again after the writer finished; ALL schedules with at most the stated number of preemptions; oracle (consistency): the first dump equals the sequential state after p writer operations with completed_before <= p <= started_after; oracle (stability): the three dumps are equal; non-trivial = snapshots taken while a writer operation was in progress");
    let lists: Vec<Vec<WOp>> = {
        let mut l = vec![
            vec![WOp::TxCreate(3, 3)],
            vec![WOp::TxSetProp(1, 4), WOp::Compact],
            vec![WOp::TxDeleteEdge(1, 2), WOp::Compact],
            vec![WOp::Compact, WOp::TxSetProp(1, 4)],
        ];
        if tier == Tier::Thorough {
            l.push(vec![WOp::TxCreate(3, 3), WOp::Compact, WOp::TxSetProp(3, 4)]);
            l.push(vec![WOp::TxLabel(1), WOp::TxSetProp(2, 3), WOp::Compact, WOp::TxSetProp(2, 4)]);
            l.push(vec![WOp::CreateIndex, WOp::TxSetProp(1, 3), WOp::TxCreate(3, 3)]);
            l.push(vec![WOp::Compact, WOp::TxCreate(3, 3), WOp::TxDeleteEdge(1, 3), WOp::Compact]);
        }
        l
    };
    let bound = tier.pick(2, 3);
    rep.set("preemption_bound", json!(bound));
    let mut reports = Vec::new();
    for (li, list) in lists.iter().enumerate() {
        let with_index = li % 2 == 1;
        // sequential reference states
        let seqref: Vec<Dump> = {
            let dir = scratch_dir("c03ref");
            let _g = ScratchGuard(dir.clone());
            setup_engine(&dir, with_index);
            let e = open_engine(&dir);
            let mut v = vec![dump_snapshot(&e.snapshot(), &c03_spec())];
            for op in list {
                apply_wop(&e, op).expect("reference run");
                v.push(dump_snapshot(&e.snapshot(), &c03_spec()));
            }
            v
        };
        let seqref = Arc::new(seqref);
        let overlapped = AtomicUsize::new(0);
        let stats = sched::explore(bound, false, tier.pick(40_000, 2_000_000), || {
            let dir = scratch_dir("c03");
            setup_engine(&dir, with_index);
            let engine = Arc::new(open_engine(&dir));
            let started = Arc::new(AtomicUsize::new(0));
            let completed = Arc::new(AtomicUsize::new(0));
            let writer_done = Arc::new(AtomicUsize::new(0));
            let obs: Arc<Mutex<Option<(usize, usize, Dump, Dump, Dump)>>> = Arc::new(Mutex::new(None));
            let werr: Arc<Mutex<Option<String>>> = Arc::new(Mutex::new(None));
            let mut bodies: Vec<Body> = Vec::new();
            {
                let (engine, list, started, completed, writer_done, werr) = (engine.clone(), list.clone(), started.clone(), completed.clone(), writer_done.clone(), werr.clone());
                bodies.push(Box::new(move || {
                    for op in &list {
                        started.fetch_add(1, Ordering::SeqCst);
                        if let Err(e) = apply_wop(&engine, op) {
                            *werr.lock().unwrap() = Some(e);
                        }
                        completed.fetch_add(1, Ordering::SeqCst);
                    }
                    writer_done.store(1, Ordering::SeqCst);
                }));
            }
            {
                let (engine, started, completed, writer_done, obs) = (engine.clone(), started.clone(), completed.clone(), writer_done.clone(), obs.clone());
                bodies.push(Box::new(move || {
                    let lo = completed.load(Ordering::SeqCst);
                    let snap = engine.snapshot();
                    let hi = started.load(Ordering::SeqCst);
                    sched::set_atomic(true);
                    let d1 = dump_snapshot(&snap, &c03_spec());
                    sched::set_atomic(false);
                    let target = completed.load(Ordering::SeqCst) + 1;
                    sched::wait_until("reader.wait_next_op", &|| completed.load(Ordering::SeqCst) >= target || writer_done.load(Ordering::SeqCst) == 1);
                    sched::set_atomic(true);
                    let d2 = dump_snapshot(&snap, &c03_spec());
                    sched::set_atomic(false);
                    sched::wait_until("reader.wait_writer_done", &|| writer_done.load(Ordering::SeqCst) == 1);
                    sched::set_atomic(true);
                    let d3 = dump_snapshot(&snap, &c03_spec());
                    sched::set_atomic(false);
                    *obs.lock().unwrap() = Some((lo, hi, d1, d2, d3));
                }));
            }
            let rep = &rep;
            let seqref = seqref.clone();
            let list2 = list.clone();
            let overlapped = &overlapped;
            let check = move |x: &Exec| {
                let _g = ScratchGuard(dir);
                rep.add_states(1);
                rep.add_traces(1);
                rep.add_transitions(x.points.len() as u64);
                rep.add_evals(1);
                let mut kinds_v: Vec<String> = list2.iter().map(|o| o.kind()).collect();
                kinds_v.extend(preemption_sites(x));
                let replay = json!({"engine":"sched","writer": list2.iter().map(|o| format!("{o:?}")).collect::<Vec<_>>(), "with_index": with_index, "schedule": x.choices, "deviations": sched_desc(x)});
                if let Some(d) = &x.deadlock {
                    rep.violation(Violation { class: "deadlock".into(), kinds: kinds_v, replay, detail: d.clone() });
                    return;
                }
                if x.diverged || x.horizon_hit {
                    rep.bump("machinery_diverged", 1);
                    return;
                }
                if let Some(Err(e)) = x.thread_results.iter().find(|r| r.is_err()) {
                    rep.violation(Violation { class: format!("thread_panicked:{}", truncate(e, 80)), kinds: kinds_v, replay, detail: e.clone() });
                    return;
                }
                if let Some(e) = werr.lock().unwrap().clone() {
                    rep.violation(Violation { class: format!("writer_failed:{}", truncate(&e, 60)), kinds: kinds_v, replay, detail: e });
                    return;
                }
                let Some((lo, hi, d1, d2, d3)) = obs.lock().unwrap().clone() else { return };
                if hi > lo {
                    overlapped.fetch_add(1, Ordering::Relaxed);
                    rep.add_nontrivial(1);
                }
                if let Some((c, d)) = d1.diff(&d2).or_else(|| d1.diff(&d3)) {
                    let class = format!("unstable:{c}");
                    rep.outcome(&class);
                    rep.violation(Violation { class, kinds: kinds_v, replay, detail: format!("snapshot taken with {lo} ops completed / {hi} started changed later: {d}") });
                    return;
                }
                let diffs: Vec<Option<(String, String)>> = (lo..=hi.min(seqref.len() - 1)).map(|p| seqref[p].diff(&d1)).collect();
                let ok = diffs.iter().any(|d| d.is_none());
                if !ok {
                    // class = what distinguishes the snapshot from EACH admissible sequential state
                    let mut cs: Vec<String> = diffs.iter().flatten().map(|d| d.0.clone()).collect();
                    cs.sort();
                    cs.dedup();
                    let c = cs.join("+");
                    let d = diffs.iter().flatten().map(|d| d.1.clone()).collect::<Vec<_>>().join(" || ");
                    let class = format!("inconsistent:{c}");
                    rep.outcome(&class);
                    rep.violation(Violation { class, kinds: kinds_v, replay, detail: format!("snapshot ({lo} ops completed, {hi} started) equals no sequential state in that range; vs state {hi}: {d}") });
                    return;
                }
                rep.outcome(&format!("consistent(p in {lo}..={hi})"));
            };
            (bodies, check)
        });
        reports.push(json!({"writer": list.iter().map(|o| format!("{o:?}")).collect::<Vec<_>>(), "with_index": with_index, "schedules": stats.schedules, "max_points": stats.max_points, "capped": stats.capped, "snapshots_overlapping_a_writer_op": overlapped.load(Ordering::Relaxed)}));
        if stats.capped {
            rep.not_exhaustive("schedule cap reached for one writer list");
        }
        if stats.diverged > 0 {
            eprintln!("MACHINERY: {} schedules diverged", stats.diverged);
            rep.finish();
            return 2;
        }
    }
    rep.sample(json!(reports.first()));
    rep.set("writer_lists", json!(reports));
    rep.assume("each dump of an existing snapshot runs as one scheduling block (instability is observed between dumps, not inside one); Relaxed atomics under sequential consistency");
    rep.finish()
}

// ---------------------------------------------------------------------------------------------
// C35 Concurrent use never deadlocks
// ---------------------------------------------------------------------------------------------

#[derive(Clone, Copy, Debug, PartialEq, Eq, PartialOrd, Ord)]
enum POp {
    Reader,
    Writer,
    Compact,
    CloseCheckpoint,
    CreateIndex,
    VectorTx,
    VectorSearch,
}

fn run_pop(e: &GraphEngine, op: POp, tid: usize) -> Result<(), String> {
    match op {
        POp::Reader => {
            let s = e.snapshot();
            let d = dump_snapshot(&s, &c03_spec());
            let _ = s.node_count(None);
            let _ = s.edge_count(None);
            let _ = s.lookup_index("A", "k", &PV::Int(1));
            if let Some(p) = d.problems.first() {
                return Err(p.clone());
            }
            Ok(())
        }
        POp::Writer => {
            let mut tx = e.begin_write();
            let l = tx.get_or_create_label(if tid == 0 { "L0" } else { "L1" }).map_err(|e| e.to_string())?;
            let _n = tx.create_node(50 + tid as u64, l).map_err(|e| e.to_string())?;
            // exactly one property per transaction: the order in which a commit visits several
            // properties depends on HashMap iteration order, which would make schedules irreproducible
            let one = e.lookup_internal_id(1).ok_or("node 1")?;
            tx.set_node_property(one, "k".into(), PV::Int(5 + tid as i64));
            tx.commit().map_err(|e| e.to_string())
        }
        POp::Compact => e.compact().map_err(|e| e.to_string()),
        POp::CloseCheckpoint => e.checkpoint_on_close().map_err(|e| e.to_string()),
        POp::CreateIndex => e.create_index("A", if tid == 0 { "k" } else { "j" }).map_err(|e| e.to_string()),
        POp::VectorTx => {
            let mut tx = e.begin_write();
            let one = e.lookup_internal_id(1).ok_or("node 1")?;
            tx.set_vector(one, vec![1.0, tid as f32]).map_err(|e| e.to_string())?;
            tx.commit().map_err(|e| e.to_string())
        }
        POp::VectorSearch => e.search_vector(&[0.0, 0.0], 2).map(|_| ()).map_err(|e| e.to_string()),
    }
}

pub fn c35(tier: Tier) -> i32 {
    let rep = Report::new("C35", tier);
    rep.rule("every unordered pair (quick) / pair and selected triples (thorough) of the public operations {reader: snapshot + full dump + counts + index lookup; writer commit touching an indexed property and creating a label; compact; checkpoint_on_close; create_index; transaction with set_vector; search_vector} runs on separate threads of one engine; ALL schedules with at most 2 preemptions for every combination (always completed); the thorough tier then repeats every combination with at most 3 preemptions under a global wall budget and records per bound how many combinations it finished (iterative context bounding); scheduling points at every lock acquisition (threads are disabled while their lock is held by another thread); oracle: no schedule reaches 'unfinished threads, none enabled', no thread panics, and the lock-order graph accumulated over all executions is acyclic; non-trivial = schedules with a preemption");
    let ops = [POp::Reader, POp::Writer, POp::Compact, POp::CloseCheckpoint, POp::CreateIndex, POp::VectorTx, POp::VectorSearch];
    let mut combos: Vec<Vec<POp>> = Vec::new();
    for (i, a) in ops.iter().enumerate() {
        for b in &ops[i..] {
            combos.push(vec![*a, *b]);
        }
    }
    if tier == Tier::Thorough {
        for t in [[POp::Reader, POp::Writer, POp::Compact], [POp::Writer, POp::CreateIndex, POp::VectorTx], [POp::Reader, POp::VectorSearch, POp::Writer], [POp::Compact, POp::CloseCheckpoint, POp::Reader], [POp::VectorTx, POp::VectorSearch, POp::Compact]] {
            combos.push(t.to_vec());
        }
    }
    // iterative context bounding: bound 2 is always completed for every combination; the thorough tier then
    // repeats every combination at bound 3 under a global wall budget and says which combinations it finished
    let t0 = std::time::Instant::now();
    let wall_budget = std::time::Duration::from_secs(std::env::var("VERIF_C35_WALL_S").ok().and_then(|v| v.parse().ok()).unwrap_or(1500));
    let passes: Vec<(usize, Option<std::time::Instant>)> = if tier == Tier::Thorough { vec![(2, None), (3, Some(t0 + wall_budget))] } else { vec![(2, None)] };
    rep.set("preemption_bound", json!(passes.last().unwrap().0));
    let all_edges: Mutex<BTreeSet<(&'static str, &'static str)>> = Mutex::new(BTreeSet::new());
    let mut reports = Vec::new();
    let cap_each = tier.pick(6_000u64, 400_000);
    let mut completed_at: BTreeMap<usize, usize> = BTreeMap::new();
    for (bound, deadline) in passes.iter().copied() {
    for combo in &combos {
        let stats = sched::explore_until(bound, false, cap_each, deadline, || {
            let dir = scratch_dir("c35");
            setup_engine(&dir, true);
            let engine = Arc::new(open_engine(&dir));
            // one un-compacted run on top of the segment
            apply_wop(&engine, &WOp::TxSetProp(2, 3)).unwrap();
            let errs: Arc<Mutex<Vec<String>>> = Arc::new(Mutex::new(Vec::new()));
            let mut bodies: Vec<Body> = Vec::new();
            for (t, op) in combo.iter().enumerate() {
                let (engine, errs, op) = (engine.clone(), errs.clone(), *op);
                bodies.push(Box::new(move || {
                    if let Err(e) = run_pop(&engine, op, t) {
                        errs.lock().unwrap().push(format!("T{t} {op:?}: {e}"));
                    }
                }));
            }
            let rep = &rep;
            let all_edges = &all_edges;
            let combo2 = combo.clone();
            let check = move |x: &Exec| {
                let _g = ScratchGuard(dir);
                rep.add_states(1);
                rep.add_traces(1);
                rep.add_transitions(x.points.len() as u64);
                rep.add_evals(1);
                if x.points.iter().any(|p| p.chosen_idx != 0 && p.running_enabled) {
                    rep.add_nontrivial(1);
                }
                all_edges.lock().unwrap().extend(x.lock_edges.iter().copied());
                let mut kinds_v: Vec<String> = combo2.iter().map(|o| format!("{o:?}")).collect();
                kinds_v.extend(preemption_sites(x));
                let replay = json!({"engine":"sched","ops": combo2.iter().map(|o| format!("{o:?}")).collect::<Vec<_>>(), "schedule": x.choices, "deviations": sched_desc(x)});
                if let Some(d) = &x.deadlock {
                    rep.outcome("deadlock");
                    rep.violation(Violation { class: "deadlock".into(), kinds: kinds_v, replay, detail: format!("no thread enabled: {d}") });
                    return;
                }
                if x.horizon_hit {
                    rep.outcome("livelock_horizon");
                    rep.violation(Violation { class: "no_progress_within_horizon".into(), kinds: kinds_v, replay, detail: "20000 scheduling points without completion".into() });
                    return;
                }
                if x.diverged {
                    rep.bump("machinery_diverged", 1);
                    return;
                }
                if let Some(Err(e)) = x.thread_results.iter().find(|r| r.is_err()) {
                    rep.outcome("panic");
                    rep.violation(Violation { class: format!("thread_panicked:{}", truncate(e, 80)), kinds: kinds_v, replay, detail: e.clone() });
                    return;
                }
                let e = errs.lock().unwrap().clone();
                rep.outcome(if e.is_empty() { "completed" } else { "completed_with_op_error" });
            };
            (bodies, check)
        });
        reports.push(json!({"ops": combo.iter().map(|o| format!("{o:?}")).collect::<Vec<_>>(), "preemption_bound": bound, "schedules": stats.schedules, "max_points": stats.max_points, "capped": stats.capped}));
        if !stats.capped {
            *completed_at.entry(bound).or_insert(0) += 1;
        }
        if stats.diverged > 0 {
            eprintln!("MACHINERY: {} schedules diverged", stats.diverged);
            rep.finish();
            return 2;
        }
    }
    }
    rep.set("combinations_completed_per_bound", json!(completed_at.iter().map(|(b, n)| json!({"preemption_bound": b, "completed": n, "of": combos.len()})).collect::<Vec<_>>()));
    for (bound, _) in &passes {
        let done = completed_at.get(bound).copied().unwrap_or(0);
        if done < combos.len() {
            rep.not_exhaustive(&format!("preemption bound {bound}: {done}/{} combinations fully explored before the schedule cap ({cap_each} per combination) or the wall budget ({} s) was reached; every lower bound listed as complete was fully covered", combos.len(), wall_budget.as_secs()));
        }
    }
    let edges = all_edges.lock().unwrap().clone();
    rep.set("lock_order_edges", json!(edges.iter().map(|(a, b)| format!("{a} -> {b}")).collect::<Vec<_>>()));
    if let Some(cyc) = sched::find_cycle(&edges) {
        rep.violation(Violation { class: "lock_order_cycle".into(), kinds: cyc.iter().map(|s| s.to_string()).collect(), replay: json!({"cycle": cyc}), detail: format!("locks are acquired in a cyclic order: {cyc:?}") });
    }
    rep.sample(json!(reports.first()));
    rep.set("combinations", json!(reports));
    rep.finish()
}

// ---------------------------------------------------------------------------------------------
// C29 Backups restore a consistent committed state
// ---------------------------------------------------------------------------------------------

fn restore_and_dump(backup_dir: &std::path::Path, id: nervusdb_storage::backup::BackupHandle, scratch: &std::path::Path) -> Result<Dump, String> {
    let target = scratch.join("restored.ndb");
    nervusdb::BackupManager::restore_from_backup(backup_dir, id.id(), &target).map_err(|e| format!("restore: {e}"))?;
    let e = catch(|| GraphEngine::open(&target, target.with_extension("wal"))).map_err(|p| p)?.map_err(|e| format!("open restored: {e}"))?;
    Ok(dump_snapshot(&e.snapshot(), &c03_spec()))
}

pub fn c29(tier: Tier) -> i32 {
    let rep = Report::new("C29", tier);
    rep.rule("quiescent part: every history of the storage alphabet up to the stated depth, then close, backup, restore into a fresh path, open: dump equal; then backup again, commit two more transactions, drop the handle and restore over the database's OWN (longer) files: the dump equals the state at backup time. Concurrent part: a backup thread (scheduling points before the page-file copy, between the two copies, after the log copy) runs against a writer thread executing a fixed list over {commit, compact, close-time log rewrite} (two configurations: points at every lock acquisition and publication step with the larger preemption bound, and additionally at every I/O step with the smaller one); ALL schedules with at most the stated number of preemptions; oracle: the source files, copied when both threads are done (the process killed there), recover to the writer's final state (the backup did not touch the source); the restored database opens and its dump equals the sequential state after p writer operations, completed_before_backup_began <= p <= started_before_backup_completed; non-trivial = backups that overlapped a writer operation");
    // quiescent
    {
        let nodes = vec![1u64, 2];
        let mut alphabet = crate::seq::sigma_write(&nodes, false);
        alphabet.push(Op::Compact);
        alphabet.push(Op::CreateIndex { l: "A", k: "k" });
        let ex = crate::seq::Explorer { rep: &rep, alphabet, node_ids: nodes, max_depth: tier.pick(2, 3), wall_cap_s: tier.pick(20.0, 900.0), prune_violating: true };
        ex.run(&|h: &[Op]| {
            let mut out = crate::seq::Outcome { violations: vec![], runs: 1, steps: 0, label: String::new(), nontrivial: false };
            let mut r = crate::seq::run_history(h);
            out.steps = r.steps;
            if r.failed_at.is_some() {
                out.label = "base_failed".into();
                return out;
            }
            let model = r.model.clone();
            let sut = r.sut.as_mut().unwrap();
            // compare against close+open without backup (differential)
            if sut.apply(&Op::CloseOpen, &model).is_err() {
                out.label = "close_failed".into();
                return out;
            }
            let before = sut.dump(&DumpSpec::default());
            let mut hh = h.to_vec();
            hh.push(Op::BackupRestore);
            match sut.apply(&Op::BackupRestore, &model) {
                Err(e) => {
                    let class = format!("quiescent_backup_failed:{}", truncate(&e, 60));
                    out.label = class.clone();
                    out.violations.push(Violation { class, kinds: kinds(&hh), replay: json!({"engine":"seq","history": show_history(&hh)}), detail: e });
                }
                Ok(()) => {
                    let after = sut.dump(&DumpSpec::default());
                    match before.diff(&after) {
                        Some((c, d)) => {
                            let class = format!("quiescent_restore:{c}");
                            out.label = class.clone();
                            out.violations.push(Violation { class, kinds: kinds(&hh), replay: json!({"engine":"seq","history": show_history(&hh)}), detail: d });
                        }
                        None => out.label = "restored_equal".into(),
                    }
                }
            }
            if !out.violations.is_empty() {
                return out;
            }
            // second scenario: the database grows after the backup and the backup is restored over its own files
            let before2 = sut.dump(&DumpSpec::default());
            let mut hh = h.to_vec();
            hh.push(Op::BackupGrowRestoreInPlace);
            out.steps += 1;
            match sut.apply(&Op::BackupGrowRestoreInPlace, &model) {
                Err(e) => {
                    let class = format!("in_place_restore_failed:{}", truncate(&e, 60));
                    out.label = class.clone();
                    out.violations.push(Violation { class, kinds: kinds(&hh), replay: json!({"engine":"seq","history": show_history(&hh)}), detail: e });
                }
                Ok(()) => {
                    let after = sut.dump(&DumpSpec::default());
                    if let Some((c, d)) = before2.diff(&after) {
                        let class = format!("in_place_restore:{c}");
                        out.label = class.clone();
                        out.violations.push(Violation { class, kinds: kinds(&hh), replay: json!({"engine":"seq","history": show_history(&hh)}), detail: format!("state at backup time vs state after restoring over the grown database: {d}") });
                    }
                }
            }
            out
        });
    }
    // concurrent
    let lists: Vec<Vec<WOp>> = {
        let mut l = vec![vec![WOp::TxSetProp(1, 3)], vec![WOp::Compact], vec![WOp::TxCreate(3, 3), WOp::Compact]];
        if tier == Tier::Thorough {
            l.push(vec![WOp::TxSetProp(1, 3), WOp::Compact, WOp::TxSetProp(2, 4)]);
            l.push(vec![WOp::TxDeleteEdge(1, 2), WOp::Compact]);
        }
        l
    };
    // (preemption bound, every I/O step is a scheduling point)
    let configs: Vec<(usize, bool)> = if tier == Tier::Thorough { vec![(3, false), (2, true)] } else { vec![(2, false), (1, true)] };
    rep.set("preemption_bound", json!(configs.iter().map(|(b, io)| json!({"bound": b, "io_steps_are_points": io})).collect::<Vec<_>>()));
    let mut reports = Vec::new();
    for (list, (bound, io_points)) in lists.iter().flat_map(|l| configs.iter().map(move |c| (l, *c))) {
        let seqref: Arc<Vec<Dump>> = {
            let dir = scratch_dir("c29ref");
            let _g = ScratchGuard(dir.clone());
            setup_engine(&dir, false);
            apply_wop(&open_engine(&dir), &WOp::TxSetProp(2, 9)).unwrap(); // one run on top
            let e = open_engine(&dir);
            let mut v = vec![dump_snapshot(&e.snapshot(), &c03_spec())];
            for op in list {
                apply_wop(&e, op).expect("reference run");
                v.push(dump_snapshot(&e.snapshot(), &c03_spec()));
            }
            Arc::new(v)
        };
        let overlapped = AtomicUsize::new(0);
        let stats = sched::explore(bound, io_points, tier.pick(20_000, 1_000_000), || {
            let dir = scratch_dir("c29");
            setup_engine(&dir, false);
            apply_wop(&open_engine(&dir), &WOp::TxSetProp(2, 9)).unwrap();
            let engine = Arc::new(open_engine(&dir));
            let started = Arc::new(AtomicUsize::new(0));
            let completed = Arc::new(AtomicUsize::new(0));
            let res: Arc<Mutex<Option<(usize, usize, Result<Dump, String>)>>> = Arc::new(Mutex::new(None));
            let mut bodies: Vec<Body> = Vec::new();
            {
                let (engine, list, started, completed) = (engine.clone(), list.clone(), started.clone(), completed.clone());
                bodies.push(Box::new(move || {
                    for op in &list {
                        started.fetch_add(1, Ordering::SeqCst);
                        let _ = apply_wop(&engine, op);
                        completed.fetch_add(1, Ordering::SeqCst);
                    }
                }));
            }
            {
                let (started, completed, res, dir2) = (started.clone(), completed.clone(), res.clone(), dir.clone());
                bodies.push(Box::new(move || {
                    let bdir = dir2.join("bk");
                    let _ = std::fs::create_dir_all(&bdir);
                    let mgr = nervusdb::BackupManager::new(dir2.join("g.ndb"), bdir.clone());
                    let lo = completed.load(Ordering::SeqCst);
                    let r = (|| -> Result<nervusdb_storage::backup::BackupHandle, String> {
                        let h = mgr.begin_backup().map_err(|e| format!("begin: {e}"))?;
                        mgr.execute_backup(&h).map_err(|e| format!("execute: {e}"))?;
                        Ok(h)
                    })();
                    let hi = started.load(Ordering::SeqCst);
                    sched::set_atomic(true);
                    let d = r.and_then(|h| restore_and_dump(&bdir, h, &dir2));
                    sched::set_atomic(false);
                    *res.lock().unwrap() = Some((lo, hi, d));
                }));
            }
            let rep = &rep;
            let seqref = seqref.clone();
            let list2 = list.clone();
            let overlapped = &overlapped;
            let engine_keep = engine;
            let check = move |x: &Exec| {
                let _g = ScratchGuard(dir.clone());
                rep.add_states(1);
                rep.add_traces(1);
                rep.add_transitions(x.points.len() as u64);
                let mut kinds_v: Vec<String> = list2.iter().map(|o| o.kind()).collect();
                kinds_v.extend(preemption_sites(x));
                let replay = json!({"engine":"sched","writer": list2.iter().map(|o| format!("{o:?}")).collect::<Vec<_>>(), "schedule": x.choices, "deviations": sched_desc(x)});
                if let Some(d) = &x.deadlock {
                    rep.violation(Violation { class: "deadlock".into(), kinds: kinds_v, replay, detail: d.clone() });
                    return;
                }
                if x.diverged || x.horizon_hit {
                    rep.bump("machinery_diverged", 1);
                    return;
                }
                if let Some(Err(e)) = x.thread_results.iter().find(|r| r.is_err()) {
                    rep.violation(Violation { class: format!("thread_panicked:{}", truncate(e, 80)), kinds: kinds_v, replay, detail: e.clone() });
                    return;
                }
                // the backup must not touch the source: the files as they are now (the process killed right here)
                // recover to the state after all writer operations
                {
                    let img = dir.join("image");
                    let _ = std::fs::create_dir_all(&img);
                    for f in ["g.ndb", "g.wal"] {
                        let _ = std::fs::copy(dir.join(f), img.join(f));
                    }
                    let want = seqref.last().unwrap();
                    match catch(|| GraphEngine::open(img.join("g.ndb"), img.join("g.wal"))) {
                        Ok(Ok(e)) => {
                            let got = dump_snapshot(&e.snapshot(), &c03_spec());
                            if let Some((c, dd)) = want.diff(&got) {
                                let class = format!("backup_damaged_source:{c}");
                                rep.outcome(&class);
                                rep.violation(Violation { class, kinds: kinds_v, replay, detail: format!("after the writer finished and the backup ran, recovering the source files gives a state that differs from the writer's final state: {dd}") });
                                return;
                            }
                        }
                        Ok(Err(e)) => {
                            rep.violation(Violation { class: "backup_damaged_source:does_not_open".into(), kinds: kinds_v, replay, detail: e.to_string() });
                            return;
                        }
                        Err(p) => {
                            rep.violation(Violation { class: "backup_damaged_source:open_panics".into(), kinds: kinds_v, replay, detail: p });
                            return;
                        }
                    }
                }
                drop(engine_keep);
                let Some((lo, hi, d)) = res.lock().unwrap().clone() else { return };
                if hi > lo {
                    overlapped.fetch_add(1, Ordering::Relaxed);
                    rep.add_nontrivial(1);
                }
                match d {
                    Err(e) => {
                        let class = format!("restored_backup_unusable:{}", truncate(&e, 70));
                        rep.outcome(&class);
                        rep.violation(Violation { class, kinds: kinds_v, replay, detail: e });
                    }
                    Ok(d) => {
                        if !d.problems.is_empty() {
                            let class = format!("restored_backup_unreadable:{}", truncate(&d.problems[0], 60));
                            rep.outcome(&class);
                            rep.violation(Violation { class, kinds: kinds_v, replay, detail: d.problems.join(";") });
                            return;
                        }
                        let ok = (lo..=hi.min(seqref.len() - 1)).any(|p| seqref[p].diff(&d).is_none());
                        if ok {
                            rep.outcome(&format!("consistent(p in {lo}..={hi})"));
                        } else {
                            let (c, dd) = seqref[hi.min(seqref.len() - 1)].diff(&d).unwrap_or(("diff:unknown".into(), String::new()));
                            let class = format!("restored_state_not_a_moment:{c}");
                            rep.outcome(&class);
                            rep.violation(Violation { class, kinds: kinds_v, replay, detail: format!("backup began after {lo} ops, completed with {hi} started; restored state matches none of them; vs {hi}: {dd}") });
                        }
                    }
                }
            };
            (bodies, check)
        });
        reports.push(json!({"writer": list.iter().map(|o| format!("{o:?}")).collect::<Vec<_>>(), "preemption_bound": bound, "io_steps_are_points": io_points, "schedules": stats.schedules, "max_points": stats.max_points, "capped": stats.capped, "backups_overlapping_a_writer_op": overlapped.load(Ordering::Relaxed)}));
        if stats.capped {
            rep.not_exhaustive("schedule cap reached for one writer list");
        }
        if stats.diverged > 0 {
            eprintln!("MACHINERY: {} schedules diverged", stats.diverged);
            rep.finish();
            return 2;
        }
    }
    rep.set("concurrent_writer_lists", json!(reports));
    rep.assume("a file copy of the backup is one atomic step (byte-level partial progress of io::copy is not modelled)");
    rep.finish()
}
