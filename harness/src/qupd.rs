//! Update-statement checks: C12 (update semantics vs reference model), C13 (failed statement has
//! no effect), C14 (no dangling relationships), C24 (transactions see their own writes).
use crate::capi::CDb;
use crate::common::*;
use crate::qry::*;
use nervusdb::query::{Params, Value};
use rayon::prelude::*;
use serde_json::json;
use std::collections::{BTreeMap, BTreeSet};

// ---------------------------------------------------------------------------------------------
// Reference model of the graph as Cypher sees it (nodes identified by their `uid` property)
// ---------------------------------------------------------------------------------------------

#[derive(Clone, Debug, PartialEq, Eq, PartialOrd, Ord, Default)]
pub struct UNode {
    pub labels: BTreeSet<String>,
    pub props: BTreeMap<String, CV>,
}

#[derive(Clone, Debug, PartialEq, Eq, PartialOrd, Ord)]
pub struct URel {
    pub src: i64,
    pub ty: String,
    pub dst: i64,
    pub props: BTreeMap<String, CV>,
}

#[derive(Clone, Debug, PartialEq, Eq, Default)]
pub struct UModel {
    pub nodes: BTreeMap<i64, UNode>,
    pub rels: Vec<URel>,
}

impl UModel {
    pub fn canon(mut self) -> Self {
        self.rels.sort();
        self
    }
    pub fn show(&self) -> String {
        let ns: Vec<String> = self.nodes.iter().map(|(u, n)| format!("({u}{} {})", n.labels.iter().map(|l| format!(":{l}")).collect::<String>(), n.props.iter().filter(|(k, _)| *k != "uid").map(|(k, v)| format!("{k}={}", v.show())).collect::<Vec<_>>().join(","))).collect();
        let rs: Vec<String> = self.rels.iter().map(|r| format!("{}-{}->{}{{{}}}", r.src, r.ty, r.dst, r.props.iter().map(|(k, v)| format!("{k}={}", v.show())).collect::<Vec<_>>().join(","))).collect();
        format!("{} | {}", ns.join(" "), rs.join(" "))
    }
    fn has_rel(&self, s: i64, t: &str, d: i64) -> bool {
        self.rels.iter().any(|r| r.src == s && r.ty == t && r.dst == d)
    }
    fn degree(&self, u: i64) -> usize {
        self.rels.iter().filter(|r| r.src == u || r.dst == u).count()
    }
}

/// Reads the whole graph back through Cypher (both traversal directions are compared in C14).
pub fn read_model(db: &QDb) -> Result<UModel, String> {
    let p = Params::new();
    let (_, rows) = db.read("MATCH (n) RETURN n.uid AS u, labels(n) AS l, properties(n) AS p", &p).map_err(|e| format!("{e:?}"))?;
    let mut m = UModel::default();
    for r in rows {
        let CV::Int(u) = r[0] else { return Err(format!("node without integer uid: {}", r[0].show())) };
        let labels: BTreeSet<String> = match &r[1] {
            CV::List(l) => l.iter().filter_map(|x| if let CV::Str(s) = x { Some(s.clone()) } else { None }).collect(),
            _ => BTreeSet::new(),
        };
        let props: BTreeMap<String, CV> = match &r[2] {
            CV::Map(mp) => mp.clone(),
            _ => BTreeMap::new(),
        };
        if m.nodes.insert(u, UNode { labels, props }).is_some() {
            return Err(format!("uid {u} listed twice"));
        }
    }
    let (_, rows) = db.read("MATCH (a)-[r]->(b) RETURN a.uid AS s, type(r) AS t, b.uid AS d, properties(r) AS p", &p).map_err(|e| format!("{e:?}"))?;
    for r in rows {
        let (CV::Int(s), CV::Str(t), CV::Int(d)) = (&r[0], &r[1], &r[2]) else { return Err(format!("relationship row {}", show_rows(&[r.clone()]))) };
        let props = match &r[3] {
            CV::Map(mp) => mp.clone(),
            _ => BTreeMap::new(),
        };
        m.rels.push(URel { src: *s, ty: t.clone(), dst: *d, props });
    }
    Ok(m.canon())
}

// ---------------------------------------------------------------------------------------------
// Statements with reference semantics
// ---------------------------------------------------------------------------------------------

#[derive(Clone, Debug, PartialEq)]
pub enum St {
    CreateNode { uid: i64, label: &'static str, v: Option<i64> },
    CreatePath { a: i64, b: i64 },
    UnwindCreate { base: i64 },
    MatchCreateRel { a: i64, b: i64, ty: &'static str },
    MergeNode { uid: i64, on: bool },
    MergeRel { a: i64, b: i64 },
    SetProp { uid: i64, val: Option<i64>, param: bool },
    SetMapReplace { uid: i64 },
    SetMapMerge { uid: i64 },
    SetLabel { uid: i64, label: &'static str },
    RemoveLabel { uid: i64, label: &'static str },
    RemoveProp { uid: i64 },
    SetRelProp { a: i64, b: i64, val: i64 },
    DeleteRel { a: i64, b: i64 },
    DetachDelete { uid: i64 },
    Delete { uid: i64 },
    SetAllProp { val: i64 },
    /// SET r += {w: null, z: 1}: a null value removes the key
    SetRelMapMerge { a: i64, b: i64 },
    /// SET r = {z: 2}
    SetRelMapReplace { a: i64, b: i64 },
    RemoveRelProp { a: i64, b: i64 },
    /// MERGE (a)-[:R]-(b): matches a relationship in EITHER direction, creates a->b otherwise
    MergeRelUndirected { a: i64, b: i64 },
    /// the same (start, type, end) twice in one CREATE
    CreateRelTwice { a: i64, b: i64 },
}

pub struct Effect {
    /// expected to fail (and then change nothing)
    pub fails: bool,
    /// the model changed
    pub changed: bool,
}

impl St {
    pub fn kind(&self) -> String {
        format!("{self:?}").split([' ', '{', '(']).next().unwrap_or("").to_string()
    }
    pub fn text(&self) -> String {
        match self {
            St::CreateNode { uid, label, v } => format!("CREATE (:{label} {{uid: {uid}{}}})", v.map(|x| format!(", v: {x}")).unwrap_or_default()),
            St::CreatePath { a, b } => format!("CREATE (:A {{uid: {a}}})-[:R {{w: 1}}]->(:B {{uid: {b}}})"),
            St::UnwindCreate { base } => format!("UNWIND [1, 2] AS i CREATE (:T {{uid: {base} + i, v: i}})"),
            St::MatchCreateRel { a, b, ty } => format!("MATCH (a {{uid: {a}}}), (b {{uid: {b}}}) CREATE (a)-[:{ty}]->(b)"),
            St::MergeNode { uid, on } => {
                if *on {
                    format!("MERGE (a:A {{uid: {uid}}}) ON CREATE SET a.v = 1 ON MATCH SET a.v = 2")
                } else {
                    format!("MERGE (a:A {{uid: {uid}}})")
                }
            }
            St::MergeRel { a, b } => format!("MATCH (a {{uid: {a}}}), (b {{uid: {b}}}) MERGE (a)-[:R]->(b)"),
            St::SetProp { uid, val, param } => {
                if *param {
                    format!("MATCH (x {{uid: {uid}}}) SET x.v = $p")
                } else {
                    format!("MATCH (x {{uid: {uid}}}) SET x.v = {}", val.map(|v| v.to_string()).unwrap_or("null".into()))
                }
            }
            St::SetMapReplace { uid } => format!("MATCH (x {{uid: {uid}}}) SET x = {{uid: {uid}, w: 1}}"),
            St::SetMapMerge { uid } => format!("MATCH (x {{uid: {uid}}}) SET x += {{w: 2, v: null}}"),
            St::SetLabel { uid, label } => format!("MATCH (x {{uid: {uid}}}) SET x:{label}"),
            St::RemoveLabel { uid, label } => format!("MATCH (x {{uid: {uid}}}) REMOVE x:{label}"),
            St::RemoveProp { uid } => format!("MATCH (x {{uid: {uid}}}) REMOVE x.v"),
            St::SetRelProp { a, b, val } => format!("MATCH (a {{uid: {a}}})-[r:R]->(b {{uid: {b}}}) SET r.w = {val}"),
            St::DeleteRel { a, b } => format!("MATCH (a {{uid: {a}}})-[r:R]->(b {{uid: {b}}}) DELETE r"),
            St::DetachDelete { uid } => format!("MATCH (x {{uid: {uid}}}) DETACH DELETE x"),
            St::Delete { uid } => format!("MATCH (x {{uid: {uid}}}) DELETE x"),
            St::SetAllProp { val } => format!("MATCH (x) SET x.v = {val}"),
            St::SetRelMapMerge { a, b } => format!("MATCH (a {{uid: {a}}})-[r:R]->(b {{uid: {b}}}) SET r += {{w: null, z: 1}}"),
            St::SetRelMapReplace { a, b } => format!("MATCH (a {{uid: {a}}})-[r:R]->(b {{uid: {b}}}) SET r = {{z: 2}}"),
            St::RemoveRelProp { a, b } => format!("MATCH (a {{uid: {a}}})-[r:R]->(b {{uid: {b}}}) REMOVE r.w"),
            St::MergeRelUndirected { a, b } => format!("MATCH (a {{uid: {a}}}), (b {{uid: {b}}}) MERGE (a)-[:R]-(b)"),
            St::CreateRelTwice { a, b } => format!("MATCH (a {{uid: {a}}}), (b {{uid: {b}}}) CREATE (a)-[:T]->(b), (a)-[:T]->(b)"),
        }
    }
    pub fn params(&self) -> (Params, Option<String>) {
        let mut p = Params::new();
        let mut js = None;
        if let St::SetProp { val, param: true, .. } = self {
            p.insert("p", val.map(Value::Int).unwrap_or(Value::Null));
            js = Some(format!("{{\"p\": {}}}", val.map(|v| v.to_string()).unwrap_or("null".into())));
        }
        (p, js)
    }
    /// Only statements that stay clear of spec-ambiguous corners are generated.
    pub fn enabled(&self, m: &UModel) -> bool {
        match self {
            St::CreateNode { uid, .. } => !m.nodes.contains_key(uid),
            St::CreatePath { a, b } => !m.nodes.contains_key(a) && !m.nodes.contains_key(b),
            St::UnwindCreate { base } => !m.nodes.contains_key(&(base + 1)) && !m.nodes.contains_key(&(base + 2)),
            // no second relationship with the same (start, type, end)
            St::MatchCreateRel { a, b, ty } => m.nodes.contains_key(a) && m.nodes.contains_key(b) && !m.has_rel(*a, ty, *b),
            St::MergeNode { uid, .. } => m.nodes.get(uid).is_none_or(|n| n.labels.contains("A")),
            St::MergeRel { a, b } => m.nodes.contains_key(a) && m.nodes.contains_key(b),
            St::SetRelProp { a, b, .. } | St::DeleteRel { a, b } | St::SetRelMapMerge { a, b } | St::SetRelMapReplace { a, b } | St::RemoveRelProp { a, b } => m.has_rel(*a, "R", *b),
            St::MergeRelUndirected { a, b } => m.nodes.contains_key(a) && m.nodes.contains_key(b),
            // parallel relationships with the same key are a spec-ambiguous corner of this engine: only from a clean slate
            St::CreateRelTwice { a, b } => m.nodes.contains_key(a) && m.nodes.contains_key(b) && !m.has_rel(*a, "T", *b),
            St::SetAllProp { .. } => !m.nodes.is_empty(),
            St::SetProp { uid, .. } | St::SetMapReplace { uid } | St::SetMapMerge { uid } | St::SetLabel { uid, .. } | St::RemoveLabel { uid, .. } | St::RemoveProp { uid } | St::DetachDelete { uid } | St::Delete { uid } => m.nodes.contains_key(uid),
        }
    }
    /// Reference semantics.
    pub fn apply(&self, m: &mut UModel) -> Effect {
        let before = m.clone();
        let node = |labels: &[&str], props: Vec<(&str, CV)>| UNode { labels: labels.iter().map(|s| s.to_string()).collect(), props: props.into_iter().map(|(k, v)| (k.to_string(), v)).collect() };
        let mut fails = false;
        match self {
            St::CreateNode { uid, label, v } => {
                let mut props = vec![("uid", CV::Int(*uid))];
                if let Some(x) = v {
                    props.push(("v", CV::Int(*x)));
                }
                m.nodes.insert(*uid, node(&[label], props));
            }
            St::CreatePath { a, b } => {
                m.nodes.insert(*a, node(&["A"], vec![("uid", CV::Int(*a))]));
                m.nodes.insert(*b, node(&["B"], vec![("uid", CV::Int(*b))]));
                m.rels.push(URel { src: *a, ty: "R".into(), dst: *b, props: BTreeMap::from([("w".to_string(), CV::Int(1))]) });
            }
            St::UnwindCreate { base } => {
                for i in 1..=2 {
                    m.nodes.insert(base + i, node(&["T"], vec![("uid", CV::Int(base + i)), ("v", CV::Int(i))]));
                }
            }
            St::MatchCreateRel { a, b, ty } => m.rels.push(URel { src: *a, ty: ty.to_string(), dst: *b, props: BTreeMap::new() }),
            St::MergeNode { uid, on } => match m.nodes.get_mut(uid) {
                Some(n) => {
                    if *on {
                        n.props.insert("v".into(), CV::Int(2));
                    }
                }
                None => {
                    let mut props = vec![("uid", CV::Int(*uid))];
                    if *on {
                        props.push(("v", CV::Int(1)));
                    }
                    m.nodes.insert(*uid, node(&["A"], props));
                }
            },
            St::MergeRel { a, b } => {
                if !m.has_rel(*a, "R", *b) {
                    m.rels.push(URel { src: *a, ty: "R".into(), dst: *b, props: BTreeMap::new() });
                }
            }
            St::SetProp { uid, val, .. } => {
                let n = m.nodes.get_mut(uid).unwrap();
                match val {
                    Some(v) => {
                        n.props.insert("v".into(), CV::Int(*v));
                    }
                    None => {
                        n.props.remove("v");
                    }
                }
            }
            St::SetMapReplace { uid } => {
                m.nodes.get_mut(uid).unwrap().props = BTreeMap::from([("uid".to_string(), CV::Int(*uid)), ("w".to_string(), CV::Int(1))]);
            }
            St::SetMapMerge { uid } => {
                let n = m.nodes.get_mut(uid).unwrap();
                n.props.insert("w".into(), CV::Int(2));
                n.props.remove("v");
            }
            St::SetLabel { uid, label } => {
                m.nodes.get_mut(uid).unwrap().labels.insert(label.to_string());
            }
            St::RemoveLabel { uid, label } => {
                m.nodes.get_mut(uid).unwrap().labels.remove(*label);
            }
            St::RemoveProp { uid } => {
                m.nodes.get_mut(uid).unwrap().props.remove("v");
            }
            St::SetRelProp { a, b, val } => {
                for r in m.rels.iter_mut().filter(|r| r.src == *a && r.ty == "R" && r.dst == *b) {
                    r.props.insert("w".into(), CV::Int(*val));
                }
            }
            St::DeleteRel { a, b } => m.rels.retain(|r| !(r.src == *a && r.ty == "R" && r.dst == *b)),
            St::DetachDelete { uid } => {
                m.nodes.remove(uid);
                m.rels.retain(|r| r.src != *uid && r.dst != *uid);
            }
            St::Delete { uid } => {
                if m.degree(*uid) > 0 {
                    fails = true;
                } else {
                    m.nodes.remove(uid);
                }
            }
            St::SetAllProp { val } => {
                for n in m.nodes.values_mut() {
                    n.props.insert("v".into(), CV::Int(*val));
                }
            }
            St::SetRelMapMerge { a, b } => {
                for r in m.rels.iter_mut().filter(|r| r.src == *a && r.ty == "R" && r.dst == *b) {
                    r.props.remove("w");
                    r.props.insert("z".into(), CV::Int(1));
                }
            }
            St::SetRelMapReplace { a, b } => {
                for r in m.rels.iter_mut().filter(|r| r.src == *a && r.ty == "R" && r.dst == *b) {
                    r.props = BTreeMap::from([("z".to_string(), CV::Int(2))]);
                }
            }
            St::RemoveRelProp { a, b } => {
                for r in m.rels.iter_mut().filter(|r| r.src == *a && r.ty == "R" && r.dst == *b) {
                    r.props.remove("w");
                }
            }
            St::MergeRelUndirected { a, b } => {
                if !m.has_rel(*a, "R", *b) && !m.has_rel(*b, "R", *a) {
                    m.rels.push(URel { src: *a, ty: "R".into(), dst: *b, props: BTreeMap::new() });
                }
            }
            St::CreateRelTwice { a, b } => {
                for _ in 0..2 {
                    m.rels.push(URel { src: *a, ty: "T".into(), dst: *b, props: BTreeMap::new() });
                }
            }
        }
        m.rels.sort();
        Effect { fails, changed: *m != before }
    }
}

pub fn statements() -> Vec<St> {
    let mut v = vec![
        St::CreateNode { uid: 3, label: "A", v: Some(1) },
        St::CreateNode { uid: 4, label: "B", v: None },
        St::CreatePath { a: 5, b: 6 },
        St::UnwindCreate { base: 10 },
        St::MatchCreateRel { a: 1, b: 2, ty: "R" },
        St::MatchCreateRel { a: 1, b: 1, ty: "S" },
        St::MatchCreateRel { a: 2, b: 1, ty: "R" },
        St::MergeNode { uid: 1, on: false },
        St::MergeNode { uid: 1, on: true },
        St::MergeNode { uid: 7, on: true },
        St::MergeRel { a: 1, b: 2 },
        St::SetProp { uid: 1, val: Some(5), param: false },
        St::SetProp { uid: 1, val: None, param: false },
        St::SetProp { uid: 1, val: Some(6), param: true },
        St::SetProp { uid: 1, val: None, param: true },
        St::SetMapReplace { uid: 1 },
        St::SetMapMerge { uid: 1 },
        St::SetLabel { uid: 1, label: "B" },
        St::RemoveLabel { uid: 1, label: "A" },
        St::RemoveProp { uid: 1 },
        St::SetRelProp { a: 1, b: 2, val: 2 },
        St::DeleteRel { a: 1, b: 2 },
        St::DetachDelete { uid: 1 },
        St::DetachDelete { uid: 2 },
        St::Delete { uid: 2 },
        St::Delete { uid: 1 },
        St::SetAllProp { val: 9 },
        St::SetRelMapMerge { a: 1, b: 2 },
        St::SetRelMapReplace { a: 1, b: 2 },
        St::RemoveRelProp { a: 1, b: 2 },
        St::MergeRelUndirected { a: 1, b: 2 },
        St::MergeRelUndirected { a: 2, b: 1 },
        St::CreateRelTwice { a: 1, b: 2 },
    ];
    v.dedup();
    v
}

/// Initial graphs: <= 2 nodes, <= 1 relationship (R from 1 to 2, optionally with a property).
pub fn initial_models() -> Vec<UModel> {
    let n = |uid: i64, labels: &[&str], v: Option<i64>| {
        let mut props = BTreeMap::from([("uid".to_string(), CV::Int(uid))]);
        if let Some(x) = v {
            props.insert("v".into(), CV::Int(x));
        }
        (uid, UNode { labels: labels.iter().map(|s| s.to_string()).collect(), props })
    };
    let mut out = vec![UModel::default()];
    for l1 in [vec!["A"], vec!["A", "B"], vec![]] {
        for v1 in [None, Some(1)] {
            out.push(UModel { nodes: BTreeMap::from([n(1, &l1, v1)]), rels: vec![] });
            for l2 in [vec!["A"], vec!["B"]] {
                for rel in [0, 1, 2] {
                    let mut m = UModel { nodes: BTreeMap::from([n(1, &l1, v1), n(2, &l2, Some(2))]), rels: vec![] };
                    if rel >= 1 {
                        m.rels.push(URel { src: 1, ty: "R".into(), dst: 2, props: if rel == 2 { BTreeMap::from([("w".to_string(), CV::Int(7))]) } else { BTreeMap::new() } });
                    }
                    out.push(m);
                }
            }
        }
    }
    out
}

/// Builds a model state through Cypher CREATE statements (one transaction each).
pub fn build_model(db: &QDb, m: &UModel) -> Result<(), String> {
    let p = Params::new();
    for (u, n) in &m.nodes {
        let labels: String = n.labels.iter().map(|l| format!(":{l}")).collect();
        let props: Vec<String> = n.props.iter().map(|(k, v)| format!("{k}: {}", crate::cyref::lit_text(v))).collect();
        let _ = u;
        db.write(&format!("CREATE ({labels} {{{}}})", props.join(", ")), &p).map_err(|e| format!("{e:?}"))?;
    }
    for r in &m.rels {
        let props: Vec<String> = r.props.iter().map(|(k, v)| format!("{k}: {}", crate::cyref::lit_text(v))).collect();
        db.write(&format!("MATCH (a {{uid: {}}}), (b {{uid: {}}}) CREATE (a)-[:{} {{{}}}]->(b)", r.src, r.dst, r.ty, props.join(", ")), &p).map_err(|e| format!("{e:?}"))?;
    }
    Ok(())
}

fn diff_class(want: &UModel, got: &UModel) -> String {
    if want.nodes.keys().ne(got.nodes.keys()) {
        return if got.nodes.len() > want.nodes.len() { "node_extra".into() } else if got.nodes.len() < want.nodes.len() { "node_missing".into() } else { "node_set".into() };
    }
    for (u, n) in &want.nodes {
        let g = &got.nodes[u];
        if g.labels != n.labels {
            return "labels".into();
        }
        if g.props != n.props {
            return if g.props.len() > n.props.len() { "node_prop_extra".into() } else if g.props.len() < n.props.len() { "node_prop_missing".into() } else { "node_prop_value".into() };
        }
    }
    let key = |r: &URel| (r.src, r.ty.clone(), r.dst);
    let wk: Vec<_> = want.rels.iter().map(key).collect();
    let gk: Vec<_> = got.rels.iter().map(key).collect();
    if wk != gk {
        return if gk.len() > wk.len() { "rel_extra".into() } else if gk.len() < wk.len() { "rel_missing".into() } else { "rel_set".into() };
    }
    "rel_props".into()
}

// ---------------------------------------------------------------------------------------------
// C12
// ---------------------------------------------------------------------------------------------

pub fn c12(tier: Tier) -> i32 {
    let rep = Report::new("C12", tier);
    rep.rule("all enabled sequences up to the stated length over 27 update statements (CREATE node / path, UNWIND..CREATE, MATCH..CREATE relationship, MERGE node [ON CREATE / ON MATCH SET], MERGE relationship, SET property / null / $param, SET = map, SET += map, SET label, REMOVE label / property, SET relationship property, DELETE relationship, DETACH DELETE, DELETE, MATCH (x) SET) applied to all initial graphs of the scope (<= 2 nodes, <= 1 relationship), each statement through execute_mixed + commit; after EVERY statement the graph read back through Cypher must equal the reference model; the reported change count must be zero exactly when the model did not change and equal through execute_mixed, execute_write and the C API on twin databases; a repeated MERGE must create nothing; non-trivial = sequences whose last statement changed the model");
    let stmts = statements();
    let inits = initial_models();
    let depth = tier.pick(2usize, 3);
    let cap = tier.pick(50.0, 3000.0);
    rep.set("initial_graphs", json!(inits.len()));
    rep.set("statements", json!(stmts.iter().map(|s| s.text()).collect::<Vec<_>>()));
    // enumerate (init, sequence)
    let mut work: Vec<(usize, Vec<usize>)> = Vec::new();
    for (ii, init) in inits.iter().enumerate() {
        let mut frontier: Vec<(Vec<usize>, UModel)> = vec![(vec![], init.clone())];
        for _ in 0..depth {
            let mut next = Vec::new();
            for (seq, m) in &frontier {
                for (si, s) in stmts.iter().enumerate() {
                    if s.enabled(m) {
                        let mut m2 = m.clone();
                        let e = s.apply(&mut m2);
                        let mut sq = seq.clone();
                        sq.push(si);
                        work.push((ii, sq.clone()));
                        if !e.fails {
                            next.push((sq, m2));
                        }
                    }
                }
            }
            frontier = next;
        }
    }
    rep.set("sequences", json!(work.len()));
    work.par_iter().for_each(|(ii, seq)| {
        if rep.elapsed() > cap {
            rep.not_exhaustive("wall cap hit");
            return;
        }
        let init = &inits[*ii];
        let db = QDb::new();
        if let Err(e) = build_model(&db, init) {
            rep.violation(Violation { class: "setup_failed".into(), kinds: vec![], replay: json!({"init": init.show()}), detail: e });
            return;
        }
        let mut model = init.clone();
        rep.add_states(1);
        rep.add_traces(1);
        let kinds_v: Vec<String> = seq.iter().map(|i| stmts[*i].kind()).collect();
        let texts: Vec<String> = seq.iter().map(|i| stmts[*i].text()).collect();
        for (pos, si) in seq.iter().enumerate() {
            let s = &stmts[*si];
            let last = pos + 1 == seq.len();
            let mut want = model.clone();
            let eff = s.apply(&mut want);
            let (params, pjson) = s.params();
            rep.add_transitions(1);
            let res = db.write(&s.text(), &params);
            let replay = json!({"engine":"update","init": init.show(), "statements": texts[..=pos]});
            let mk = |class: String, detail: String| Violation { class, kinds: kinds_v[..=pos].to_vec(), replay: replay.clone(), detail };
            if !last {
                // prefixes are checked as sequences of their own
                if res.is_ok() != !eff.fails {
                    return;
                }
                if !eff.fails {
                    model = want;
                }
                continue;
            }
            if eff.changed {
                rep.add_nontrivial(1);
            }
            match (&res, eff.fails) {
                (Err(e), false) => {
                    rep.outcome("unexpected_error");
                    rep.violation(mk(format!("statement_failed:{}", e.class()), format!("{} failed: {}", s.text(), e.msg())));
                    return;
                }
                (Ok(_), true) => {
                    rep.outcome("expected_failure_missing");
                    rep.violation(mk("connected_node_deleted_without_detach".into(), format!("{} succeeded although the node has relationships", s.text())));
                    return;
                }
                _ => {}
            }
            if eff.fails {
                want = model.clone();
            }
            match read_model(&db) {
                Err(e) => {
                    rep.outcome("read_failed");
                    rep.violation(mk("read_back_failed".into(), e));
                }
                Ok(got) => {
                    if got != want {
                        let class = format!("graph_differs:{}", diff_class(&want, &got));
                        rep.outcome(&class);
                        rep.violation(mk(class, format!("after {}: got {} expected {}", s.text(), got.show(), want.show())));
                        return;
                    }
                    rep.outcome("as_model");
                }
            }
            // change count consistency
            if let Ok(n) = res {
                // consistency: a statement that changed the graph cannot report "0 changes"
                // (a no-op may legitimately report the operations it performed, e.g. SET of an
                // existing label - that is not judged)
                // MERGE is exempt: the repository's own tests (t323) define its count as the number of
                // created nodes / relationships, so ON MATCH SET legitimately reports 0
                if n == 0 && eff.changed && !matches!(s, St::MergeNode { .. } | St::MergeRel { .. } | St::MergeRelUndirected { .. }) {
                    rep.violation(mk("change_count_zero_for_change".into(), format!("{} reported 0 changes although it changed the graph", s.text())));
                }
                // the same statement on twin databases through execute_write and the C API
                let twin = QDb::new();
                if build_model(&twin, init).is_ok() {
                    let mut ok = true;
                    for sj in &seq[..pos] {
                        let (pp, _) = stmts[*sj].params();
                        ok &= twin.write(&stmts[*sj].text(), &pp).is_ok();
                    }
                    if ok {
                        let n2 = catch(|| {
                            crate::rt::with_hooks(twin.hooks.clone(), || -> Result<u32, String> {
                                let prepared = nervusdb::query::prepare(&s.text()).map_err(|e| e.to_string())?;
                                let snap = twin.db().snapshot();
                                let mut txn = twin.db().begin_write();
                                let n = prepared.execute_write(&snap, &mut txn, &params).map_err(|e| e.to_string())?;
                                txn.commit().map_err(|e| e.to_string())?;
                                Ok(n)
                            })
                        });
                        if let Ok(Ok(n2)) = n2 {
                            if n2 != n {
                                rep.violation(mk("change_count_differs:execute_write".into(), format!("{}: execute_mixed {n}, execute_write {n2}", s.text())));
                            }
                        }
                    }
                }
                let ctwin = QDb::new();
                if build_model(&ctwin, init).is_ok() {
                    let mut ok = true;
                    for sj in &seq[..pos] {
                        let (pp, _) = stmts[*sj].params();
                        ok &= ctwin.write(&stmts[*sj].text(), &pp).is_ok();
                    }
                    let mut ctwin = ctwin;
                    let path = ctwin.dir.join("g");
                    drop(ctwin.db.take());
                    if ok {
                        if let Ok(cdb) = CDb::open(&path) {
                            let r = crate::rt::with_hooks(ctwin.hooks.clone(), || cdb.execute_write(&s.text(), pjson.as_deref()));
                            if let Ok(n3) = r {
                                if n3 != n {
                                    rep.violation(mk("change_count_differs:c_api".into(), format!("{}: execute_mixed {n}, ndb_execute_write {n3}", s.text())));
                                }
                            }
                            drop(cdb);
                        }
                    }
                }
            }
        }
    });
    rep.sample(json!({"init": inits[inits.len() / 2].show(), "statements": [stmts[5].text(), stmts[20].text()]}));
    rep.assume("statements that would create a second relationship with the same (start, type, end) are not generated (the engine identifies relationships by that triple: spec-ambiguous corner)");
    rep.finish()
}

// ---------------------------------------------------------------------------------------------
// C13 A failed statement has no effect
// ---------------------------------------------------------------------------------------------

fn failing_statements() -> Vec<(&'static str, String, Option<&'static str>)> {
    let v: Vec<(&'static str, &str, Option<&'static str>)> = vec![
        ("fail_row1_create", "UNWIND [1, 2, 3] AS i CREATE (:T {uid: 200 + i, b: toBoolean(i)})", None),
        ("fail_row3_create", "UNWIND [[1, true], [2, false], [3, 3]] AS p CREATE (:T {uid: 300 + p[0], b: toBoolean(p[1])})", None),
        ("fail_row2_create", "UNWIND [[1, 'true'], [2, 2], [3, 'false']] AS p CREATE (:T {uid: 400 + p[0], b: toBoolean(p[1])})", None),
        ("set_then_failing_projection", "MATCH (x {uid: 1}) SET x.v = 55 WITH x UNWIND [true, 1] AS i RETURN toBoolean(i)", None),
        ("create_then_failing_projection", "CREATE (n:T {uid: 500}) WITH n UNWIND [1] AS i RETURN toInteger([i])", None),
        ("set_label_then_fail", "MATCH (x {uid: 1}) SET x:Z WITH x RETURN toBoolean(x.uid)", None),
        ("delete_connected", "MATCH (x {uid: 1}) DELETE x", None),
        ("delete_second_connected", "MATCH (x) WITH x ORDER BY x.uid DESC DELETE x", None),
        ("syntax_error", "MATCH (x {uid: 1}) SET x.v = ", None),
        ("merge_then_fail", "MERGE (m:M {uid: 600}) WITH m RETURN toBoolean(m.uid)", None),
        ("remove_then_fail", "MATCH (x {uid: 2}) REMOVE x.v WITH x RETURN toBoolean(1)", None),
        // statements that undo what an EARLIER statement of the same transaction did, then fail
        ("set_label_A_then_fail", "MATCH (x {uid: 1}) SET x:A WITH x RETURN toBoolean(x.uid)", None),
        ("remove_label_A_then_fail", "MATCH (x {uid: 1}) REMOVE x:A WITH x RETURN toBoolean(x.uid)", None),
        ("remove_label_Z_then_fail", "MATCH (x {uid: 1}) REMOVE x:Z WITH x RETURN toBoolean(x.uid)", None),
        ("remove_v_then_fail", "MATCH (x {uid: 1}) REMOVE x.v WITH x RETURN toBoolean(x.uid)", None),
        ("create_rel_then_fail", "MATCH (a {uid: 1}), (b {uid: 2}) CREATE (a)-[:R]->(b) WITH a RETURN toBoolean(a.uid)", None),
        ("delete_rel_then_fail", "MATCH (a {uid: 1})-[r]->(b) DELETE r WITH a RETURN toBoolean(a.uid)", None),
        // run-time errors that the engine words as 'syntax error: ..' (bad SKIP / LIMIT parameter) after a write clause
        ("set_then_negative_limit", "MATCH (x {uid: 1}) SET x.v = 56 WITH x LIMIT $k RETURN x.uid AS u", Some("{\"k\": -1}")),
        ("create_then_bad_skip", "CREATE (n:T {uid: 501}) WITH n SKIP $k RETURN n.uid AS u", Some("{\"k\": \"a\"}")),
        ("unwind_create_then_negative_skip", "UNWIND [1, 2] AS i CREATE (n:T {uid: 510 + i}) WITH n SKIP $k RETURN n.uid AS u", Some("{\"k\": -2}")),
    ];
    v.into_iter().map(|(a, b, c)| (a, b.to_string(), c)).collect()
}

fn params_of(js: Option<&str>) -> Params {
    let mut p = Params::new();
    if let Some(js) = js {
        let v: serde_json::Value = serde_json::from_str(js).expect("params json");
        for (k, x) in v.as_object().unwrap() {
            let val = match x {
                serde_json::Value::Number(n) => Value::Int(n.as_i64().unwrap()),
                serde_json::Value::String(s) => Value::String(s.clone()),
                _ => Value::Null,
            };
            p.insert(k.clone(), val);
        }
    }
    p
}

pub fn c13(tier: Tier) -> i32 {
    let rep = Report::new("C13", tier);
    rep.rule("20 failing write statements (type errors at row 1 / 2 / 3 of a multi-row CREATE, an update followed by a failing projection, refused deletes of connected nodes, a syntax error, MERGE / REMOVE / label and relationship changes followed by a failure - including changes that undo what an earlier statement of the transaction did - and bad SKIP / LIMIT parameters after a write clause) x all initial graphs of the scope x execution modes {Rust execute_mixed auto-commit, ndb_execute_write, inside ndb_begin_write..ndb_txn_commit: alone or after EACH of 7 successful statements (create node, remove / add a label, set a property, create / delete a relationship), each optionally followed by a successful statement}; oracle: the statement reports an error and the final graph equals the graph produced by the same script without the failing statement; non-trivial = (statement, graph, mode) triples in which the statement would have changed the graph before failing");
    let fails = failing_statements();
    let inits: Vec<UModel> = initial_models().into_iter().filter(|m| m.nodes.contains_key(&1)).collect();
    let befores: Vec<Option<St>> = vec![None, Some(St::CreateNode { uid: 700, label: "Ok", v: None }), Some(St::RemoveLabel { uid: 1, label: "A" }), Some(St::SetLabel { uid: 1, label: "Z" }), Some(St::SetLabel { uid: 1, label: "A" }), Some(St::SetProp { uid: 1, val: Some(77), param: false }), Some(St::MatchCreateRel { a: 1, b: 2, ty: "S" }), Some(St::DeleteRel { a: 1, b: 2 })];
    let ok_after = "CREATE (:Ok {uid: 800})";
    // modes: 0 = rust auto-commit, 1 = capi auto-commit, 2.. = txn with before[(m-2)/2], after = (m-2)%2
    let n_modes = 2 + befores.len() * 2;
    let _ = tier;
    let work: Vec<(usize, usize, usize)> = (0..inits.len()).flat_map(|i| (0..fails.len()).flat_map(move |f| (0..n_modes).map(move |m| (i, f, m)))).collect();
    work.par_iter().for_each(|&(ii, fi, mi)| {
        let init = &inits[ii];
        let (fname, ftext, fparams) = &fails[fi];
        let (before, after): (Option<&St>, bool) = if mi < 2 { (None, false) } else { (befores[(mi - 2) / 2].as_ref(), (mi - 2) % 2 == 1) };
        let mode = match mi {
            0 => "rust_autocommit".to_string(),
            1 => "capi_autocommit".to_string(),
            _ => format!("txn{}{}", before.map(|b| format!("_after_{}", b.kind())).unwrap_or_default(), if after { "_before_ok" } else { "" }),
        };
        let mut expected = init.clone();
        if let Some(b) = before {
            if !b.enabled(&expected) {
                return;
            }
            if b.apply(&mut expected).fails {
                return;
            }
        }
        // the statement must fail on this state, and do so after a write
        let connected = expected.rels.iter().any(|r| r.src == 1 || r.dst == 1);
        if fname == &"delete_connected" && !connected {
            return;
        }
        if fname == &"delete_second_connected" && expected.rels.is_empty() {
            return;
        }
        // (a relationship created earlier in the same transaction is not visible to the statement: that is C24's finding)
        if fname == &"delete_rel_then_fail" && !(expected.rels.iter().any(|r| r.src == 1) && init.rels.iter().any(|r| r.src == 1 && expected.rels.contains(r))) {
            return;
        }
        if (fname == &"remove_then_fail" || fname == &"create_rel_then_fail") && !expected.nodes.contains_key(&2) {
            return;
        }
        rep.add_states(1);
        rep.add_traces(1);
        rep.add_transitions(1);
        let mut db = QDb::new();
        if build_model(&db, init).is_err() {
            return;
        }
        let add_ok = |m: &mut UModel, uid: i64| {
            m.nodes.insert(uid, UNode { labels: BTreeSet::from(["Ok".to_string()]), props: BTreeMap::from([("uid".to_string(), CV::Int(uid))]) });
        };
        let replay = json!({"engine":"update","init": init.show(), "before": before.map(|b| b.text()), "failing": ftext, "params": fparams, "mode": mode});
        let mut kinds = vec![if mi < 2 { mode.clone() } else { "txn".to_string() }, fname.to_string()];
        if let Some(b) = before {
            kinds.push(format!("after:{}", b.kind()));
        }
        let mk = |class: String, detail: String| Violation { class, kinds: kinds.clone(), replay: replay.clone(), detail };
        let failed: Result<bool, String> = if mi == 0 {
            Ok(db.write(ftext, &params_of(*fparams)).is_err())
        } else {
            let path = db.dir.join("g");
            drop(db.db.take());
            let r = crate::rt::with_hooks(db.hooks.clone(), || -> Result<bool, String> {
                let cdb = CDb::open(&path).map_err(|e| e.message)?;
                let failed;
                if mi == 1 {
                    failed = cdb.execute_write(ftext, *fparams).is_err();
                } else {
                    let mut txn = cdb.begin_write().map_err(|e| e.message)?;
                    if let Some(b) = before {
                        txn.query(&b.text(), None).map_err(|e| format!("ok statement failed: {}", e.message))?;
                    }
                    failed = txn.query(ftext, *fparams).is_err();
                    if after {
                        txn.query(ok_after, None).map_err(|e| format!("ok statement failed: {}", e.message))?;
                    }
                    txn.commit().map_err(|e| format!("commit: {}", e.message))?;
                }
                drop(cdb);
                Ok(failed)
            });
            if let Err(p) = catch(|| db.reopen()) {
                rep.outcome("database_unusable");
                rep.violation(mk("database_does_not_reopen_after_transaction".into(), format!("script result {r:?}; reopen: {p}")));
                return;
            }
            r
        };
        if after {
            add_ok(&mut expected, 800);
        }
        match failed {
            Err(e) => {
                rep.outcome("script_failed");
                rep.violation(mk("script_failed".into(), e));
            }
            Ok(false) => {
                rep.outcome("statement_did_not_fail");
                rep.violation(mk("failing_statement_succeeded".into(), format!("{ftext} reported success")));
            }
            Ok(true) => match read_model(&db) {
                Err(e) => rep.violation(mk("read_back_failed".into(), e)),
                Ok(got) => {
                    rep.add_nontrivial(1);
                    if got == expected.clone().canon() {
                        rep.outcome("no_effect");
                    } else {
                        let class = format!("failed_statement_left_effects:{}", diff_class(&expected, &got));
                        rep.outcome(&class);
                        rep.violation(mk(class, format!("got {} expected {}", got.show(), expected.show())));
                    }
                }
            },
        }
    });
    rep.sample(json!({"failing": fails[1].1, "mode": "txn_after_RemoveLabel_before_ok"}));
    rep.finish()
}

// ---------------------------------------------------------------------------------------------
// C14 No dangling relationships
// ---------------------------------------------------------------------------------------------

fn c14_statements() -> Vec<(&'static str, String)> {
    vec![
        ("create_path", "CREATE (:A {uid: 5})-[:R]->(:B {uid: 6})".into()),
        ("match_create_rel", "MATCH (a {uid: 1}), (b {uid: 2}) CREATE (a)-[:S]->(b)".into()),
        ("match_create_rel_rev", "MATCH (a {uid: 2}), (b {uid: 1}) CREATE (a)-[:S]->(b)".into()),
        ("delete_1", "MATCH (x {uid: 1}) DELETE x".into()),
        ("delete_2", "MATCH (x {uid: 2}) DELETE x".into()),
        ("detach_delete_1", "MATCH (x {uid: 1}) DETACH DELETE x".into()),
        ("detach_delete_2", "MATCH (x {uid: 2}) DETACH DELETE x".into()),
        ("create_then_delete_new_end", "MATCH (a {uid: 1}) CREATE (a)-[:R]->(x:X {uid: 9}) WITH x DELETE x".into()),
        ("create_then_delete_old_end", "MATCH (a {uid: 1}) CREATE (a)-[:R]->(x:X {uid: 8}) WITH a DELETE a".into()),
        ("create_then_detach_delete_new_end", "MATCH (a {uid: 1}) CREATE (a)-[:R]->(x:X {uid: 7}) WITH x DETACH DELETE x".into()),
        ("delete_rel_then_node", "MATCH (a {uid: 1})-[r]->(b) DELETE r, a".into()),
        ("delete_all_nodes", "MATCH (x) DELETE x".into()),
        ("delete_rel_R_1_2", "MATCH (a {uid: 1})-[r:R]->(b {uid: 2}) DELETE r".into()),
        ("create_rel_R_1_2", "MATCH (a {uid: 1}), (b {uid: 2}) CREATE (a)-[:R]->(b)".into()),
        ("create_rel_twice", "MATCH (a {uid: 1}), (b {uid: 2}) CREATE (a)-[:T]->(b), (a)-[:T]->(b)".into()),
    ]
}

/// Statements used for the longer sequences inside one explicit transaction.
const C14_TXN_ALPHABET: [&str; 9] = ["delete_rel_R_1_2", "create_rel_R_1_2", "create_rel_twice", "match_create_rel", "match_create_rel_rev", "delete_1", "delete_2", "detach_delete_1", "detach_delete_2"];

/// Endpoint checks through Cypher in both directions and through the storage snapshot.
fn dangling(db: &QDb) -> Result<Option<String>, String> {
    let p = Params::new();
    let (_, nodes) = db.read("MATCH (n) RETURN n.uid AS u", &p).map_err(|e| format!("{e:?}"))?;
    let live: BTreeSet<CV> = nodes.into_iter().map(|r| r[0].clone()).collect();
    for (q, name) in [("MATCH (a)-[r]->(b) RETURN a.uid AS s, b.uid AS d, type(r) AS t", "outgoing"), ("MATCH (b)<-[r]-(a) RETURN a.uid AS s, b.uid AS d, type(r) AS t", "incoming"), ("MATCH (a)-[r]-(b) RETURN a.uid AS s, b.uid AS d, type(r) AS t", "undirected")] {
        let (_, rows) = db.read(q, &p).map_err(|e| format!("{e:?}"))?;
        for r in rows {
            if !live.contains(&r[0]) || !live.contains(&r[1]) {
                return Ok(Some(format!("{name}: relationship {}-{}->{} has an endpoint that MATCH (n) does not return", r[0].show(), r[2].show(), r[1].show())));
            }
        }
    }
    // storage level
    use nervusdb::GraphSnapshot;
    let snap = db.db().snapshot();
    let ids: BTreeSet<u32> = snap.nodes().collect();
    for &i in &ids {
        for e in snap.neighbors(i, None).chain(snap.incoming_neighbors(i, None)) {
            if !ids.contains(&e.src) || !ids.contains(&e.dst) {
                return Ok(Some(format!("storage: edge {}-{}->{} has an endpoint outside nodes()", e.src, e.rel, e.dst)));
            }
        }
    }
    Ok(None)
}

pub fn c14(tier: Tier) -> i32 {
    let rep = Report::new("C14", tier);
    rep.rule("all sequences up to the stated length over 15 statements (CREATE path, MATCH..CREATE relationship in both directions, DELETE / DETACH DELETE of either node, create-then-delete of the new or the old endpoint inside one statement, DELETE r, a, MATCH (x) DELETE x) on all initial graphs of the scope, each statement auto-committed, plus inside one explicit C API transaction every pair over the whole alphabet and every triple (thorough: quadruple) over a 9-statement sub-alphabet (delete / re-create the same relationship, create it twice, delete / detach-delete either endpoint); after EVERY commit: every relationship returned by outgoing, incoming and undirected Cypher traversals and by the storage neighbour iterators has both endpoints among the live nodes; a DELETE (without DETACH) of a node that has relationships - including ones created earlier in the same statement or transaction - must fail; non-trivial = sequences containing a delete of a connected node");
    let stmts = c14_statements();
    let inits: Vec<UModel> = initial_models().into_iter().filter(|m| m.nodes.len() == 2).collect();
    let depth = tier.pick(2usize, 3);
    let mut seqs: Vec<Vec<usize>> = vec![];
    let mut frontier: Vec<Vec<usize>> = vec![vec![]];
    for _ in 0..depth {
        let mut next = Vec::new();
        for s in &frontier {
            for i in 0..stmts.len() {
                let mut n = s.clone();
                n.push(i);
                next.push(n);
            }
        }
        seqs.extend(next.iter().cloned());
        frontier = next;
    }
    // inside one transaction: every pair over the whole alphabet, every triple (thorough: quadruple) over the sub-alphabet
    let sub: Vec<usize> = C14_TXN_ALPHABET.iter().map(|n| stmts.iter().position(|(m, _)| m == n).expect("statement")).collect();
    let mut txn_seqs: Vec<Vec<usize>> = seqs.iter().filter(|s| s.len() == 2).cloned().collect();
    let mut fr: Vec<Vec<usize>> = vec![vec![]];
    for len in 1..=tier.pick(3usize, 4) {
        let mut next = Vec::new();
        for s in &fr {
            for &i in &sub {
                let mut n = s.clone();
                n.push(i);
                next.push(n);
            }
        }
        if len >= 3 {
            txn_seqs.extend(next.iter().cloned());
        }
        fr = next;
    }
    let work: Vec<(usize, &Vec<usize>, bool)> = (0..inits.len()).flat_map(|i| seqs.iter().map(move |s| (i, s, false)).chain(txn_seqs.iter().map(move |s| (i, s, true)))).collect();
    rep.set("sequences", json!(work.len()));
    work.par_iter().for_each(|(ii, seq, in_txn)| {
        let init = &inits[*ii];
        let mut db = QDb::new();
        if build_model(&db, init).is_err() {
            return;
        }
        rep.add_states(1);
        rep.add_traces(1);
        let kinds_v: Vec<String> = std::iter::once(if *in_txn { "one_transaction".to_string() } else { "autocommit".to_string() }).chain(seq.iter().map(|i| stmts[*i].0.to_string())).collect();
        let texts: Vec<&String> = seq.iter().map(|i| &stmts[*i].1).collect();
        let replay = json!({"engine":"update","init": init.show(), "statements": texts, "one_transaction": in_txn});
        let mk = |class: String, detail: String| Violation { class, kinds: kinds_v.clone(), replay: replay.clone(), detail };
        if *in_txn {
            let path = db.dir.join("g");
            drop(db.db.take());
            let r = crate::rt::with_hooks(db.hooks.clone(), || -> Result<(), String> {
                let cdb = CDb::open(&path).map_err(|e| e.message)?;
                let mut txn = cdb.begin_write().map_err(|e| e.message)?;
                for t in &texts {
                    let _ = txn.query(t, None);
                }
                txn.commit().map_err(|e| e.message)?;
                drop(cdb);
                Ok(())
            });
            db.reopen();
            rep.add_transitions(seq.len() as u64);
            if r.is_err() {
                rep.outcome("txn_script_failed");
                return;
            }
            match dangling(&db) {
                Ok(None) => rep.outcome("no_dangling"),
                Ok(Some(d)) => {
                    rep.outcome("dangling");
                    rep.violation(mk("dangling_relationship".into(), d));
                }
                Err(e) => rep.violation(mk("read_failed".into(), e)),
            }
            return;
        }
        for (pos, si) in seq.iter().enumerate() {
            rep.add_transitions(1);
            // degree of the node a plain DELETE targets, as seen right before the statement
            let before = read_model(&db).ok();
            let res = db.write(&stmts[*si].1, &Params::new());
            let name = stmts[*si].0;
            if let (Some(b), Ok(_)) = (&before, &res) {
                let refused_expected = match name {
                    "delete_1" => b.nodes.contains_key(&1) && b.degree(1) > 0,
                    "delete_2" => b.nodes.contains_key(&2) && b.degree(2) > 0,
                    "create_then_delete_new_end" | "create_then_delete_old_end" => b.nodes.contains_key(&1),
                    "delete_all_nodes" => !b.rels.is_empty(),
                    _ => false,
                };
                if refused_expected {
                    rep.add_nontrivial(1);
                    rep.outcome("connected_delete_accepted");
                    let mut v = mk(format!("connected_node_deleted:{name}"), format!("{} succeeded although the node still has relationships", stmts[*si].1));
                    v.kinds.truncate(pos + 2);
                    rep.violation(v);
                    return;
                }
            }
            match dangling(&db) {
                Ok(None) => {}
                Ok(Some(d)) => {
                    rep.outcome("dangling");
                    let mut v = mk("dangling_relationship".into(), d);
                    v.kinds.truncate(pos + 2);
                    rep.violation(v);
                    return;
                }
                Err(e) => {
                    rep.violation(mk("read_failed".into(), e));
                    return;
                }
            }
        }
        rep.outcome("no_dangling");
    });
    rep.sample(json!({"statements": [stmts[7].1]}));
    rep.finish()
}

// ---------------------------------------------------------------------------------------------
// C24 Transactions see their own writes
// ---------------------------------------------------------------------------------------------

pub fn c24(tier: Tier) -> i32 {
    let rep = Report::new("C24", tier);
    rep.rule("all sequences of 2 (thorough: up to 3) statements from a dependent 11-statement alphabet (create node a; set / increment a property of a; create b and a relationship from a; MERGE a; DETACH DELETE a; set a property of b; create the relationship between the existing a and b; DELETE b; DELETE the relationship; DELETE a), plus (quick) every triple over the relationship / delete sub-alphabet, executed inside ONE ndb_begin_write..ndb_txn_commit on four initial states (empty; a; a and b; a-[:R]->b); oracle: the graph after commit equals the graph after the same statements run as separate auto-commit statements; non-trivial = sequences in which a later statement reads what an earlier one wrote (the auto-commit result differs from running every statement against the initial state)");
    // (name, text, what it READS through MATCH / MERGE, what it WRITES)
    let alphabet: Vec<(&str, &str, &[&str], &[&str])> = vec![
        ("create_a", "CREATE (:A {uid: 1})", &[], &["node_a"]),
        ("set_a", "MATCH (a:A) SET a.v = 1", &["node_a", "del_node_a"], &["prop_a"]),
        ("create_rel", "MATCH (a:A) CREATE (a)-[:R]->(:B {uid: 2})", &["node_a", "del_node_a"], &["node_b", "rel_ab"]),
        ("merge_a", "MERGE (:A {uid: 1})", &["node_a", "del_node_a"], &["node_a"]),
        ("incr_a", "MATCH (a:A) SET a.v = coalesce(a.v, 0) + 1", &["node_a", "del_node_a", "prop_a"], &["prop_a"]),
        ("detach_delete_a", "MATCH (a:A) DETACH DELETE a", &["node_a", "del_node_a", "rel_ab_attached"], &["del_node_a", "del_rel_ab"]),
        ("set_b", "MATCH (b:B) SET b.seen = 1", &["node_b", "del_node_b"], &["prop_b"]),
        ("create_rel_ab", "MATCH (a:A), (b:B) CREATE (a)-[:R]->(b)", &["node_a", "node_b", "del_node_a", "del_node_b"], &["rel_ab"]),
        ("delete_b", "MATCH (b:B) DELETE b", &["node_b", "del_node_b", "rel_ab_attached", "del_rel_ab_attached"], &["del_node_b"]),
        ("delete_rel", "MATCH (:A)-[r:R]->(:B) DELETE r", &["rel_ab_match", "del_rel_ab_match", "node_a", "node_b"], &["del_rel_ab"]),
        ("delete_a", "MATCH (a:A) DELETE a", &["node_a", "del_node_a", "rel_ab_attached", "del_rel_ab_attached"], &["del_node_a"]),
    ];
    let depth = tier.pick(2usize, 3);
    let mut seqs: Vec<Vec<usize>> = vec![];
    let mut frontier: Vec<Vec<usize>> = vec![vec![]];
    for _ in 0..depth {
        let mut next = Vec::new();
        for s in &frontier {
            for i in 0..alphabet.len() {
                // a second CREATE of uid 1 / uid 2 would make uids ambiguous; keep at most one of each
                if (i == 0 && s.contains(&0)) || (i == 2 && s.contains(&2)) {
                    continue;
                }
                let mut n = s.clone();
                n.push(i);
                next.push(n);
            }
        }
        seqs.extend(next.iter().filter(|s| s.len() >= 2).cloned());
        frontier = next;
    }
    // thorough: plus every triple over the relationship / delete sub-alphabet on the two-node initial state
    if depth == 2 {
        let sub = [7usize, 5, 8, 9, 10];
        for x in sub {
            for y in sub {
                for z in sub {
                    seqs.push(vec![x, y, z]);
                }
            }
        }
    }
    // initial states: 0 = empty, 1 = node a, 2 = nodes a and b (no relationship), 3 = a-[:R]->b
    let work: Vec<(u8, &Vec<usize>)> = seqs
        .iter()
        .flat_map(|s| [(0u8, s), (1, s), (2, s), (3, s)])
        .filter(|(init, s)| {
            let creates_a = s.contains(&0);
            let creates_b = s.contains(&2);
            match init {
                0 => true,
                1 => !creates_a,
                _ => !creates_a && !creates_b,
            }
        })
        .collect();
    work.par_iter().for_each(|(init, seq)| {
        rep.add_states(1);
        rep.add_traces(2);
        rep.add_transitions(2 * seq.len() as u64);
        let prepopulated = &(*init > 0);
        let setup = |db: &QDb| {
            let p = Params::new();
            if *init >= 1 {
                let _ = db.write("CREATE (:A {uid: 1})", &p);
            }
            if *init >= 2 {
                let _ = db.write("CREATE (:B {uid: 2})", &p);
            }
            if *init >= 3 {
                let _ = db.write("MATCH (a:A), (b:B) CREATE (a)-[:R]->(b)", &p);
            }
        };
        // which kinds of own writes does a later statement read? (cause tags for triage / known findings)
        let mut causes: BTreeSet<String> = BTreeSet::new();
        for j in 0..seq.len() {
            for i in 0..j {
                for w in alphabet[seq[i]].3 {
                    // a relationship (or its deletion) is read either by matching a pattern or as "attached to a node being deleted"
                    for r in alphabet[seq[j]].2 {
                        if r == w || r.strip_suffix("_match") == Some(w) || r.strip_suffix("_attached") == Some(w) {
                            causes.insert(format!("cause:reads_{r}_written_in_txn"));
                        }
                    }
                }
            }
        }
        // reference: separate auto-commit statements
        let a = QDb::new();
        setup(&a);
        for i in seq.iter() {
            let _ = a.write(alphabet[*i].1, &Params::new());
        }
        let want = read_model(&a);
        // stale variant (every statement sees only the initial state) to measure non-triviality
        // subject: one explicit transaction through the C API
        let mut b = QDb::new();
        setup(&b);
        let path = b.dir.join("g");
        drop(b.db.take());
        let r = crate::rt::with_hooks(b.hooks.clone(), || -> Result<Vec<bool>, String> {
            let cdb = CDb::open(&path).map_err(|e| e.message)?;
            let mut txn = cdb.begin_write().map_err(|e| e.message)?;
            let mut oks = Vec::new();
            for i in seq.iter() {
                oks.push(txn.query(alphabet[*i].1, None).is_ok());
            }
            txn.commit().map_err(|e| format!("commit: {}", e.message))?;
            drop(cdb);
            Ok(oks)
        });
        b.reopen();
        let got = read_model(&b);
        let _ = prepopulated;
        let kinds_v: Vec<String> = std::iter::once(["empty", "node_a", "nodes_a_b", "a_R_b"][*init as usize].to_string()).chain(seq.iter().map(|i| alphabet[*i].0.to_string())).chain(causes.iter().cloned()).collect();
        let init_text = ["empty", "(:A {uid:1})", "(:A {uid:1}), (:B {uid:2})", "(:A {uid:1})-[:R]->(:B {uid:2})"][*init as usize];
        let replay = json!({"engine":"update","initial_state": init_text, "statements": seq.iter().map(|i| alphabet[*i].1).collect::<Vec<_>>()});
        match (r, want, got) {
            (Err(e), _, _) => {
                rep.outcome("txn_failed");
                rep.violation(Violation { class: "transaction_failed".into(), kinds: kinds_v, replay, detail: e });
            }
            (Ok(_), Ok(w), Ok(g)) => {
                if w == g {
                    rep.outcome("same_as_autocommit");
                } else {
                    rep.add_nontrivial(1);
                    let class = format!("own_writes_not_seen:{}", diff_class(&w, &g));
                    rep.outcome(&class);
                    rep.violation(Violation { class, kinds: kinds_v, replay, detail: format!("in one transaction: {} ; as auto-commit statements: {}", g.show(), w.show()) });
                }
            }
            (_, Err(_), _) => rep.outcome("reference_sequence_outside_scope"),
            (_, Ok(w), Err(e)) => {
                rep.add_nontrivial(1);
                let class = if e.contains("listed twice") { "own_writes_not_seen:duplicate_node".to_string() } else { "read_back_failed".to_string() };
                rep.outcome(&class);
                rep.violation(Violation { class, kinds: kinds_v, replay, detail: format!("in one transaction: {e}; as auto-commit statements: {}", w.show()) });
            }
        }
    });
    rep.sample(json!({"statements": ["CREATE (:A {uid: 1})", "MATCH (a:A) SET a.v = 1"]}));
    rep.finish()
}
