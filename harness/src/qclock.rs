//! C32: node identities are unique and allocation never fails - statement sequences x clock scripts.
use crate::common::*;
use crate::rt::with_hooks;
use nervusdb::query::{Params, prepare};
use nervusdb::{Db, GraphSnapshot, PropertyValue};
use nervusdb_storage::verif::Hooks;
use rayon::prelude::*;
use serde_json::json;
use std::collections::{BTreeMap, BTreeSet};
use std::sync::Mutex;
use std::sync::atomic::{AtomicI64, AtomicUsize, Ordering};

/// The clock the engine sees: every read adds the next scripted delta (default +1000 ns).
struct ScriptClock {
    now: AtomicI64,
    reads: AtomicUsize,
    deltas: Vec<(usize, i64)>,
    log: Mutex<Vec<i64>>,
}
const DEFAULT_DELTA: i64 = 1000;
impl Hooks for ScriptClock {
    fn now_nanos(&self) -> Option<i64> {
        let i = self.reads.fetch_add(1, Ordering::SeqCst);
        let d = self.deltas.iter().find(|(at, _)| *at == i).map(|(_, d)| *d).unwrap_or(DEFAULT_DELTA);
        let v = self.now.fetch_add(d, Ordering::SeqCst) + d;
        self.log.lock().unwrap().push(v);
        Some(v)
    }
    fn hnsw_level(&self) -> Option<usize> {
        Some(0)
    }
}

#[derive(Clone, Copy, Debug, PartialEq, Eq, Hash)]
enum CStmt {
    Create1,
    Create2,
    UnwindCreate2,
    Merge1,
    /// two single-node statements inside one transaction
    TxCreate1Create1,
    /// a large batch in one statement (volume)
    UnwindCreateN,
    DeleteOldest,
    Compact,
    Reopen,
}

impl CStmt {
    fn reads(&self) -> usize {
        match self {
            CStmt::Create1 | CStmt::Merge1 => 1,
            CStmt::Create2 | CStmt::UnwindCreate2 | CStmt::TxCreate1Create1 => 2,
            CStmt::UnwindCreateN => BATCH,
            _ => 0,
        }
    }
}
const BATCH: usize = 40;

struct Run {
    violation: Option<(String, String)>,
    steps: u64,
    nodes_created: u64,
}

fn exec(db: &Db, texts: &[String]) -> Result<(), String> {
    catch(|| -> Result<(), String> {
        let snap = db.snapshot();
        let mut txn = db.begin_write();
        for t in texts {
            let p = prepare(t).map_err(|e| format!("compile: {e}"))?;
            p.execute_mixed(&snap, &mut txn, &Params::new()).map_err(|e| format!("{e}"))?;
        }
        txn.commit().map_err(|e| format!("commit: {e}"))
    })
    .and_then(|r| r)
}

fn live_nodes(db: &Db) -> BTreeMap<i64, (u32, u64)> {
    let snap = db.snapshot();
    let mut out = BTreeMap::new();
    for iid in snap.nodes() {
        let u = match snap.node_property(iid, "u") {
            Some(PropertyValue::Int(u)) => u,
            _ => -(iid as i64) - 1,
        };
        out.insert(u, (iid, snap.resolve_external(iid).unwrap_or(u64::MAX)));
    }
    out
}

fn run_case(seq: &[CStmt], deltas: &[(usize, i64)], dir: &std::path::Path) -> Run {
    let _ = std::fs::remove_dir_all(dir);
    let _ = std::fs::create_dir_all(dir);
    let clock = std::sync::Arc::new(ScriptClock { now: AtomicI64::new(1_700_000_000_000_000_000), reads: AtomicUsize::new(0), deltas: deltas.to_vec(), log: Mutex::new(Vec::new()) });
    let hooks: std::sync::Arc<dyn Hooks> = clock.clone();
    with_hooks(hooks, || {
        let base = dir.join("g");
        let mut db = Some(Db::open(&base).expect("open"));
        let mut next_u = 1i64;
        let mut ever_iid: BTreeMap<u32, i64> = BTreeMap::new();
        let mut ever_ext: BTreeMap<u64, i64> = BTreeMap::new();
        let mut known: BTreeMap<i64, (u32, u64)> = BTreeMap::new();
        let mut deleted: BTreeSet<i64> = BTreeSet::new();
        let mut steps = 0u64;
        let mut created = 0u64;
        for (i, st) in seq.iter().enumerate() {
            steps += 1;
            let d = db.as_ref().unwrap();
            let mut expect_new: Vec<i64> = Vec::new();
            let mut fresh = |n: usize| -> Vec<i64> {
                let v: Vec<i64> = (0..n as i64).map(|k| next_u + k).collect();
                next_u += n as i64;
                v
            };
            let r = match st {
                CStmt::Create1 => {
                    expect_new = fresh(1);
                    exec(d, &[format!("CREATE (:N {{u: {}}})", expect_new[0])])
                }
                CStmt::Create2 => {
                    expect_new = fresh(2);
                    exec(d, &[format!("CREATE (:N {{u: {}}}), (:N {{u: {}}})", expect_new[0], expect_new[1])])
                }
                CStmt::UnwindCreate2 => {
                    expect_new = fresh(2);
                    exec(d, &[format!("UNWIND [{}, {}] AS x CREATE (:N {{u: x}})", expect_new[0], expect_new[1])])
                }
                CStmt::Merge1 => {
                    expect_new = fresh(1);
                    exec(d, &[format!("MERGE (:M {{u: {}}})", expect_new[0])])
                }
                CStmt::TxCreate1Create1 => {
                    expect_new = fresh(2);
                    exec(d, &[format!("CREATE (:N {{u: {}}})", expect_new[0]), format!("CREATE (:N {{u: {}}})", expect_new[1])])
                }
                CStmt::UnwindCreateN => {
                    expect_new = fresh(BATCH);
                    exec(d, &[format!("UNWIND range({}, {}) AS x CREATE (:N {{u: x}})", expect_new[0], expect_new[BATCH - 1])])
                }
                CStmt::DeleteOldest => {
                    let Some((&u, _)) = known.iter().find(|(u, _)| !deleted.contains(u)) else { continue };
                    deleted.insert(u);
                    exec(d, &[format!("MATCH (n {{u: {u}}}) DETACH DELETE n")])
                }
                CStmt::Compact => catch(|| d.compact().map_err(|e| e.to_string())).and_then(|r| r),
                CStmt::Reopen => {
                    drop(db.take());
                    match catch(|| Db::open(&base)) {
                        Ok(Ok(x)) => {
                            db = Some(x);
                            Ok(())
                        }
                        Ok(Err(e)) => Err(format!("reopen: {e}")),
                        Err(p) => Err(p),
                    }
                }
            };
            if let Err(e) = r {
                let class = if e.contains("external id") { "create_fails:external_id_collision" } else if e.starts_with("PANIC") { "panic" } else { "statement_fails" };
                return Run { violation: Some((class.into(), format!("step {i} ({st:?}) failed: {e}; clock values read so far {:?}", clock.log.lock().unwrap()))), steps, nodes_created: created };
            }
            let Some(d) = db.as_ref() else { break };
            let live = live_nodes(d);
            // every live node we know keeps (iid, ext); new nodes have never-used identities
            for (u, ids) in &live {
                match known.get(u) {
                    Some(old) if old != ids => {
                        return Run { violation: Some(("identity_changed".into(), format!("step {i} ({st:?}): node u={u} had (iid, ext) = {old:?}, now {ids:?}"))), steps, nodes_created: created };
                    }
                    Some(_) => {}
                    None => {
                        if !expect_new.contains(u) {
                            return Run { violation: Some(("unexpected_node".into(), format!("step {i} ({st:?}): node u={u} {ids:?} appeared"))), steps, nodes_created: created };
                        }
                        if let Some(prev) = ever_iid.get(&ids.0) {
                            return Run { violation: Some(("internal_id_reused".into(), format!("step {i} ({st:?}): node u={u} got internal id {} which node u={prev} had", ids.0))), steps, nodes_created: created };
                        }
                        if let Some(prev) = ever_ext.get(&ids.1) {
                            return Run { violation: Some(("external_id_reused".into(), format!("step {i} ({st:?}): node u={u} got external id {} which node u={prev} had{}", ids.1, if deleted.contains(prev) { " (deleted since)" } else { "" }))), steps, nodes_created: created };
                        }
                        ever_iid.insert(ids.0, *u);
                        ever_ext.insert(ids.1, *u);
                        known.insert(*u, *ids);
                        created += 1;
                    }
                }
            }
            for u in &expect_new {
                if !live.contains_key(u) {
                    return Run { violation: Some(("created_node_missing".into(), format!("step {i} ({st:?}): node u={u} was created by a successful statement but is not there"))), steps, nodes_created: created };
                }
            }
            for (u, _) in &known {
                if !deleted.contains(u) && !live.contains_key(u) {
                    return Run { violation: Some(("node_lost".into(), format!("step {i} ({st:?}): node u={u} disappeared"))), steps, nodes_created: created };
                }
            }
        }
        Run { violation: None, steps, nodes_created: created }
    })
}

pub fn c32(tier: Tier) -> i32 {
    let rep = Report::new("C32", tier);
    let alphabet = [CStmt::Create1, CStmt::Create2, CStmt::UnwindCreate2, CStmt::Merge1, CStmt::TxCreate1Create1, CStmt::DeleteOldest, CStmt::Compact, CStmt::Reopen];
    let depth = tier.pick(3usize, 4);
    let max_dev = tier.pick(2usize, 3);
    let dev_values: [i64; 5] = [0, 1, -1, -1000, 2];
    rep.rule(&format!("every statement sequence up to length {depth} over {{CREATE one node; CREATE two nodes in one pattern list; UNWIND [..] CREATE (two rows); MERGE creating a node; two CREATE statements in one transaction; DETACH DELETE the oldest live node; Compact; Reopen}} (sequences without any creation are skipped) x every clock script in which at most {max_dev} of the clock reads deviate from the default advance of +1000 ns, each deviation in {{0 (stall), +1, +2, -1, -1000 (step backwards)}}; plus longer fixed sequences under every single (thorough: double) deviation: a volume family (UNWIND range CREATE of {BATCH} nodes followed or preceded by creations) and create / delete / Compact / Reopen / create families; the engine's only time source for identities (the now_nanos hook) is the scripted clock; oracle after EVERY step: the statement succeeded; every node created by it is present; every node's (internal id, external id) is unchanged since it was first seen (across Compact / Reopen); no new node has an internal or external id that any node - live or deleted - ever had; non-trivial = runs with at least two nodes created"));
    // sequences
    let mut seqs: Vec<Vec<CStmt>> = vec![vec![]];
    let mut all: Vec<Vec<CStmt>> = Vec::new();
    for _ in 0..depth {
        let mut next = Vec::new();
        for s in &seqs {
            for a in alphabet {
                if matches!(a, CStmt::Compact | CStmt::Reopen) && s.last() == Some(&a) {
                    continue;
                }
                if a == CStmt::DeleteOldest && !s.iter().any(|x| x.reads() > 0) {
                    continue;
                }
                let mut n = s.clone();
                n.push(a);
                next.push(n);
            }
        }
        all.extend(next.iter().cloned());
        seqs = next;
    }
    all.retain(|s| s.iter().map(|x| x.reads()).sum::<usize>() >= 2 && s.last().map(|x| x.reads() > 0 || matches!(x, CStmt::Reopen | CStmt::Compact)).unwrap_or(false));
    // volume family
    let volume: Vec<Vec<CStmt>> = vec![vec![CStmt::UnwindCreateN, CStmt::Create1], vec![CStmt::Create1, CStmt::UnwindCreateN], vec![CStmt::UnwindCreateN, CStmt::UnwindCreateN], vec![CStmt::UnwindCreateN, CStmt::Reopen, CStmt::Create2],
        // identities of deleted nodes after compaction and reopen (longer than the depth bound reaches)
        vec![CStmt::Create1, CStmt::DeleteOldest, CStmt::Compact, CStmt::Reopen, CStmt::Create1],
        vec![CStmt::Create2, CStmt::DeleteOldest, CStmt::Compact, CStmt::Reopen, CStmt::Create2, CStmt::Compact, CStmt::Reopen],
        vec![CStmt::Create1, CStmt::DeleteOldest, CStmt::Reopen, CStmt::Compact, CStmt::Merge1],
    ];
    // cases = (sequence, deviation set)
    let mut cases: Vec<(Vec<CStmt>, Vec<(usize, i64)>)> = Vec::new();
    let scripts = |reads: usize, max_dev: usize| -> Vec<Vec<(usize, i64)>> {
        let mut out: Vec<Vec<(usize, i64)>> = vec![vec![]];
        let mut frontier: Vec<Vec<(usize, i64)>> = vec![vec![]];
        for _ in 0..max_dev {
            let mut next = Vec::new();
            for s in &frontier {
                let start = s.last().map(|(i, _)| i + 1).unwrap_or(0);
                for at in start..reads {
                    for d in dev_values {
                        let mut n = s.clone();
                        n.push((at, d));
                        next.push(n);
                    }
                }
            }
            out.extend(next.iter().cloned());
            frontier = next;
        }
        out
    };
    for s in &all {
        let reads: usize = s.iter().map(|x| x.reads()).sum();
        for sc in scripts(reads, max_dev) {
            cases.push((s.clone(), sc));
        }
    }
    let n_main = cases.len();
    for s in &volume {
        let reads: usize = s.iter().map(|x| x.reads()).sum();
        for sc in scripts(reads, tier.pick(1, 2)) {
            cases.push((s.clone(), sc));
        }
    }
    rep.set("cases", json!({"sequences": all.len(), "sequence_x_script_cases": n_main, "volume_cases": cases.len() - n_main, "deviation_bound": max_dev}));
    let cap = tier.pick(45.0, 3000.0);
    let t0 = std::time::Instant::now();
    let results: Vec<Option<Run>> = cases
        .par_iter()
        .map_init(
            || scratch_dir("clk"),
            |dir, (s, sc)| {
                if t0.elapsed().as_secs_f64() > cap {
                    return None;
                }
                Some(run_case(s, sc, dir))
            },
        )
        .collect();
    let mut skipped = 0u64;
    for ((s, sc), r) in cases.iter().zip(results) {
        let Some(r) = r else {
            skipped += 1;
            continue;
        };
        rep.add_states(r.steps);
        rep.add_transitions(r.steps);
        rep.add_traces(1);
        rep.add_evals(r.steps);
        if r.nodes_created >= 2 {
            rep.add_nontrivial(1);
        }
        match r.violation {
            None => rep.outcome("unique_and_stable"),
            Some((class, detail)) => {
                rep.outcome(&class);
                let mut kinds: Vec<String> = s.iter().map(|x| format!("{x:?}")).collect();
                for (_, d) in sc {
                    kinds.push(format!("clock:{}", match d {
                        0 => "stall".to_string(),
                        d if *d < 0 => "backwards".to_string(),
                        d => format!("+{d}"),
                    }));
                }
                rep.violation(Violation { class, kinds, replay: json!({"engine": "clock", "sequence": s.iter().map(|x| format!("{x:?}")).collect::<Vec<_>>(), "clock_deviations": sc.iter().map(|(at, d)| json!({"read": at, "delta_ns": d})).collect::<Vec<_>>(), "default_delta_ns": DEFAULT_DELTA}), detail });
            }
        }
    }
    if skipped > 0 {
        rep.not_exhaustive(&format!("wall cap: {skipped} of {} cases not run", cases.len()));
    }
    rep.sample(json!({"sequence": ["Create2", "Create1"], "clock_deviations": [{"read": 1, "delta_ns": 0}, {"read": 2, "delta_ns": 1}]}));
    rep.finish()
}
