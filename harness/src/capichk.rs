//! C34: C API results match the Rust API - statement corpus through both entry paths on identical databases.
use crate::capi::*;
use crate::common::*;
use crate::rt::{DetHooks, with_hooks};
use nervusdb::Db;
use nervusdb::query::{Params, Value, prepare};
use rayon::prelude::*;
use serde_json::{Value as J, json};
use std::path::Path;

const NDB_ERRCAT_SYNTAX: i32 = 1;
const NDB_ERRCAT_EXECUTION: i32 = 2;

#[derive(Clone, Debug)]
struct Stmt {
    text: String,
    /// parameters as JSON text (C API) - the Rust side converts the same JSON with its own rules
    params: Option<String>,
    /// by construction: does the statement contain an updating clause?
    write: bool,
    family: &'static str,
}

fn rd(family: &'static str, t: &str) -> Stmt {
    Stmt { text: t.to_string(), params: None, write: false, family }
}
fn wr(family: &'static str, t: &str) -> Stmt {
    Stmt { text: t.to_string(), params: None, write: true, family }
}

fn corpus(full: bool) -> Vec<Stmt> {
    let mut v = Vec::new();
    // value kinds
    for e in [
        "1", "-9223372036854775808", "9223372036854775807", "1.5", "-0.0", "1e308", "1.0", "0.1 + 0.2", "0.0 / 0.0", "1.0 / 0.0", "-1.0 / 0.0", "true", "null", "'a'", "''", "'q\"uote\\\\'", "'\\u0000'", "'\u{1F600}\u{202E}'", "[1, 'a', null, [2.5]]", "{a: 1, b: {c: [true]}}", "[]", "{}",
        "date('2020-01-02')", "datetime('2020-01-02T03:04:05Z')", "localtime('10:11:12')", "duration('P1DT2H')", "date('2020-01-02') + duration('P1D')", "[date('2020-01-02')]", "{d: datetime('2020-01-02T03:04:05Z')}", "range(1, 3)", "toFloat(1)", "toString(1.0)", "1 / 2", "1 / 2.0", "2 ^ 70", "9007199254740993", "9007199254740993.0",
    ] {
        v.push(rd("value", &format!("RETURN {e} AS x")));
    }
    // graph values
    for q in [
        "MATCH (n) RETURN n", "MATCH (n) RETURN n ORDER BY n.uid LIMIT 1", "MATCH (a)-[r]->(b) RETURN r", "MATCH (a)-[r]->(b) RETURN a, r, b", "MATCH p = (a)-[r]->(b) RETURN p", "MATCH p = (a)-[*1..2]->(b) RETURN p", "MATCH p = (a)-[*0..1]->(b) RETURN length(p) AS l, p", "MATCH (n) RETURN collect(n) AS ns",
        "MATCH (a)-[r]->(b) RETURN collect(r) AS rs", "MATCH (a)-[r]->(b) RETURN {node: a, rel: r} AS m", "MATCH (a)-[r]->(b) RETURN [a, r] AS l", "MATCH p = (a)-[r]->(b) RETURN nodes(p) AS ns, relationships(p) AS rs", "MATCH (n) RETURN id(n) AS i, labels(n) AS l, properties(n) AS p, keys(n) AS k",
        "MATCH (a)-[r]->(b) RETURN type(r) AS t, startNode(r) AS s, endNode(r) AS e, properties(r) AS p", "MATCH (n) RETURN n.uid AS u, n.f AS f, n.s AS s, n.l AS l, n.m AS m", "MATCH (n) OPTIONAL MATCH (n)-[r]->(m) RETURN n.uid AS u, r, m", "MATCH (n) RETURN n.uid AS uid, n.uid AS uid2", "MATCH (n) RETURN count(*) AS c, min(n.uid) AS lo, avg(n.uid) AS av, collect(n.uid) AS ids",
        "MATCH (n:A) RETURN n.uid AS u UNION MATCH (n:B) RETURN n.uid AS u", "MATCH (n) WITH n ORDER BY n.uid RETURN n.uid AS b, n.f AS a", "UNWIND [3, 1, 2] AS z RETURN z AS b, -z AS a ORDER BY a", "MATCH (n) WHERE n.uid = $p RETURN n", "RETURN $p AS p", "RETURN $q AS q", "MATCH (n) RETURN n.uid AS u SKIP 1 LIMIT 1",
    ] {
        v.push(rd("graph", q));
    }
    // parameters of every JSON kind
    for p in ["1", "1.5", "\"s\"", "null", "true", "[1, [2]]", "{\"a\": {\"b\": 1}}", "9223372036854775807", "18446744073709551615", "1e400", "-0.0", "1.0"] {
        v.push(Stmt { text: "RETURN $p AS p".into(), params: Some(format!("{{\"p\": {p}}}")), write: false, family: "param" });
        v.push(Stmt { text: "MATCH (n) WHERE n.uid = $p RETURN n.uid AS u".into(), params: Some(format!("{{\"p\": {p}}}")), write: false, family: "param" });
    }
    for bad in ["[1]", "1", "\"x\"", "{", "", "{\"p\": 1} x", "null"] {
        v.push(Stmt { text: "RETURN $p AS p".into(), params: Some(bad.to_string()), write: false, family: "bad_params" });
    }
    // failing statements: compile-time and run-time
    for q in [
        "RETURN", "MATCH (n RETURN n", "RETURN 1 +", "RETURN foo", "RETURN unknownfn(1)", "MATCH (n) RETURN m", "RETURN 1 AS a, 2 AS a", "RETURN count(count(1))", "RETURN 1 UNION RETURN 1 AS b", "UNWIND [1] AS x RETURN x SKIP -1", "RETURN $missing AS x",
        "RETURN 1 / 0 AS x", "RETURN 9223372036854775807 + 1 AS x", "RETURN toInteger('x') AS x", "RETURN [1][2] AS x", "RETURN {a: 1}.a.b AS x", "UNWIND [1, 0] AS x RETURN 1 / x AS y", "RETURN date('nope') AS x", "RETURN 'a' + 1 AS x", "RETURN 1 < 'a' AS x", "RETURN abs('a') AS x", "MATCH (n) RETURN n.uid / 0 AS x", "RETURN range(1, 3, 0) AS x",
        "RETURN date('syntax') AS x", "RETURN toInteger('parse wal') AS x", "MATCH (n) RETURN n.uid / 0 AS checkpoint", "RETURN 1 / 0 AS syntax", "MATCH (n:A) DELETE n", "MATCH (n) WHERE n.uid = 1 CREATE (n)-[:R]->(n) WITH n DELETE n", "RETURN {wal: 1}.wal.x AS y", "UNWIND [1] AS syntax RETURN syntax / 0 AS y",
        "RETURN 1 ; RETURN 2", "\u{FEFF}RETURN 1", "/* c */ RETURN 1 AS x", "// c\nRETURN 1 AS x", "  RETURN 1 AS x  ", "return 1 as x", "EXPLAIN MATCH (n) RETURN n", "EXPLAIN CREATE (:X)", "explain create (:X)",
    ] {
        v.push(rd("errors_and_forms", q));
    }
    // read / write classification: updates nested in subqueries, FOREACH, UNION arms
    for q in [
        "CREATE (:X {uid: 50})", "CREATE (:X {uid: 50}) RETURN 1 AS x", "MATCH (n {uid: 1}) SET n.v = 7", "MATCH (n {uid: 1}) SET n.v = 7 RETURN n.v AS v", "MATCH (n {uid: 1}) REMOVE n.f", "MATCH (n {uid: 2}) DETACH DELETE n", "MERGE (:X {uid: 51})", "MERGE (n:A {uid: 1}) ON MATCH SET n.v = 8",
        "FOREACH (i IN [1, 2] | CREATE (:X {uid: 60 + i}))", "MATCH (n {uid: 1}) FOREACH (i IN [1] | SET n.v = i)", "CALL { CREATE (:X {uid: 52}) }", "CALL { CREATE (:X {uid: 52}) RETURN 1 AS one } RETURN one", "MATCH (n {uid: 1}) CALL { WITH n SET n.v = 9 } RETURN n.v AS v",
        "UNWIND [1, 2] AS i CALL { WITH i CREATE (:X {uid: 70 + i}) } RETURN count(*) AS c", "CREATE (:X {uid: 53}) UNION CREATE (:X {uid: 54})", "RETURN 1 AS x UNION ALL CREATE (:X {uid: 55}) RETURN 2 AS x", "MATCH (n {uid: 1}) RETURN n.uid AS x UNION MATCH (m {uid: 2}) SET m.v = 1 RETURN m.uid AS x",
        "CALL { CALL { CREATE (:X {uid: 56}) } }", "MATCH (n {uid: 1}) CALL { WITH n CALL { WITH n SET n.v = 10 } } RETURN 1 AS x", "OPTIONAL MATCH (n {uid: 99}) DELETE n", "MATCH (n {uid: 99}) SET n.v = 1", "CREATE (a:X {uid: 57})-[:R]->(b:X {uid: 58}) RETURN a, b", "UNWIND [] AS i CREATE (:X {uid: i})",
        "MATCH (n {uid: 1}) SET n.v = 1 / 0", "CREATE (:X {uid: 59}) WITH 1 AS one RETURN one / 0 AS boom", "CREATE (n:X {uid: 61}) SET n.v = 1 REMOVE n.v DELETE n", "MATCH (a)-[r*]->(b) CREATE (a)-[r]->(b)",
    ] {
        v.push(wr("write_forms", q));
    }
    // keywords inside strings / names must not confuse the classifier
    for q in ["RETURN 'CREATE (n)' AS s", "MATCH (n) WHERE n.s = 'SET x' RETURN n.uid AS u", "RETURN 1 AS `CREATE`", "MATCH (n) RETURN n.uid AS delete_me", "WITH 1 AS merge RETURN merge", "RETURN 'DELETE' + 'MERGE' AS s", "MATCH (create) RETURN create.uid AS u", "MATCH (n:SET) RETURN n"] {
        v.push(rd("keyword_lookalikes", q));
    }
    // the C11 read grammar and the C12 update statements
    let reads = crate::cyref::queries(false);
    let step = if full { 1 } else { 11 };
    for q in reads.iter().step_by(step) {
        v.push(rd("c11_grammar", &q.text()));
    }
    for s in crate::qupd::statements() {
        let (_, js) = s.params();
        v.push(Stmt { text: s.text(), params: js, write: true, family: "c12_statements" });
    }
    v
}

const SETUP: [&str; 4] = [
    "CREATE (:A {uid: 1, f: 1.5, s: 'x', l: [1, 2], v: 0})-[:R {w: 1}]->(:B {uid: 2, f: -0.0, m: 'y'})",
    "MATCH (a {uid: 1}), (b {uid: 2}) CREATE (b)-[:S]->(a), (a)-[:R]->(a)",
    "CREATE (:A:B {uid: 3})",
    "MATCH (b {uid: 2}), (c {uid: 3}) CREATE (b)-[:R {w: 2.5}]->(c)",
];

fn build(base: &Path) {
    let db = Db::open(base).expect("open");
    for s in SETUP {
        let p = prepare(s).expect("setup compiles");
        let snap = db.snapshot();
        let mut txn = db.begin_write();
        p.execute_mixed(&snap, &mut txn, &Params::new()).expect("setup runs");
        txn.commit().expect("setup commits");
    }
    db.close().expect("close");
}

/// Independent conversion of a reified Rust value into the documented JSON shape of the C API.
fn to_json(v: &Value) -> J {
    match v {
        Value::Null => J::Null,
        Value::Bool(b) => json!(b),
        Value::Int(i) => json!(i),
        Value::Float(f) => {
            if f.is_finite() {
                json!(f)
            } else {
                json!({"non_finite_float": format!("{f}")})
            }
        }
        Value::String(s) => json!(s),
        Value::DateTime(t) => json!({"type": "datetime", "value": t}),
        Value::Blob(b) => json!({"type": "blob", "len": b.len()}),
        Value::List(l) => J::Array(l.iter().map(to_json).collect()),
        Value::Map(m) => J::Object(m.iter().map(|(k, v)| (k.clone(), to_json(v))).collect()),
        Value::Node(n) => json!({"type": "node", "id": n.id, "labels": n.labels, "properties": J::Object(n.properties.iter().map(|(k, v)| (k.clone(), to_json(v))).collect())}),
        Value::Relationship(r) => json!({"type": "relationship", "src": r.key.src, "dst": r.key.dst, "rel_type": r.rel_type, "properties": J::Object(r.properties.iter().map(|(k, v)| (k.clone(), to_json(v))).collect())}),
        Value::ReifiedPath(p) => json!({"type": "path", "nodes": p.nodes.iter().map(|n| to_json(&Value::Node(n.clone()))).collect::<Vec<_>>(), "relationships": p.relationships.iter().map(|r| to_json(&Value::Relationship(r.clone()))).collect::<Vec<_>>()}),
        other => json!({"unreified": format!("{other:?}")}),
    }
}

/// JSON parameter text -> Rust parameters by the documented mapping (integers that fit i64 are Int,
/// other numbers Float, arrays List, objects Map).
fn params_from_json(js: &Option<String>) -> Result<Params, String> {
    let mut p = Params::new();
    let Some(js) = js else { return Ok(p) };
    let root: J = serde_json::from_str(js).map_err(|e| format!("params JSON: {e}"))?;
    let obj = root.as_object().ok_or("params must be an object")?;
    fn conv(v: &J) -> Result<Value, String> {
        Ok(match v {
            J::Null => Value::Null,
            J::Bool(b) => Value::Bool(*b),
            J::Number(n) => {
                if let Some(i) = n.as_i64() {
                    Value::Int(i)
                } else if let Some(f) = n.as_f64() {
                    Value::Float(f)
                } else {
                    return Err("number".into());
                }
            }
            J::String(s) => Value::String(s.clone()),
            J::Array(a) => Value::List(a.iter().map(conv).collect::<Result<_, _>>()?),
            J::Object(o) => Value::Map(o.iter().map(|(k, v)| Ok((k.clone(), conv(v)?))).collect::<Result<_, String>>()?),
        })
    }
    for (k, v) in obj {
        p.insert(k.clone(), conv(v)?);
    }
    Ok(p)
}

#[derive(Debug, Clone, PartialEq)]
enum Res {
    Rows(Vec<J>),
    Count(u32),
    /// (phase, message): phase = "params" | "compile" | "run" | "commit"
    Fail(&'static str, String),
}

fn rust_read(db: &Db, s: &Stmt) -> Res {
    let params = match params_from_json(&s.params) {
        Ok(p) => p,
        Err(e) => return Res::Fail("params", e),
    };
    match catch(|| -> Res {
        let p = match prepare(&s.text) {
            Ok(p) => p,
            Err(e) => return Res::Fail("compile", e.to_string()),
        };
        let snap = db.snapshot();
        let mut out = Vec::new();
        for row in p.execute_streaming(&snap, &params) {
            let row = match row.and_then(|r| r.reify(&snap)) {
                Ok(r) => r,
                Err(e) => return Res::Fail("run", e.to_string()),
            };
            let mut o = serde_json::Map::new();
            for (k, v) in row.columns() {
                o.insert(k.clone(), to_json(v));
            }
            out.push(J::Object(o));
        }
        Res::Rows(out)
    }) {
        Ok(r) => r,
        Err(p) => Res::Fail("run", p),
    }
}

fn rust_write(db: &Db, s: &Stmt) -> Res {
    let params = match params_from_json(&s.params) {
        Ok(p) => p,
        Err(e) => return Res::Fail("params", e),
    };
    match catch(|| -> Res {
        let p = match prepare(&s.text) {
            Ok(p) => p,
            Err(e) => return Res::Fail("compile", e.to_string()),
        };
        let mut txn = db.begin_write();
        let snap = db.snapshot();
        match p.execute_mixed(&snap, &mut txn, &params) {
            Ok((_, n)) => match txn.commit() {
                Ok(()) => Res::Count(n),
                Err(e) => Res::Fail("commit", e.to_string()),
            },
            Err(e) => Res::Fail("run", e.to_string()),
        }
    }) {
        Ok(r) => r,
        Err(p) => Res::Fail("run", p),
    }
}

const STATE_QUERIES: [&str; 2] = ["MATCH (n) RETURN n ORDER BY n.uid", "MATCH (a)-[r]->(b) RETURN a.uid AS a, r, b.uid AS b ORDER BY a, b, type(r)"];

fn c_state(db: &CDb) -> Result<Vec<J>, String> {
    let mut out = Vec::new();
    for q in STATE_QUERIES {
        out.push(db.query(q, None).map_err(|e| format!("state query through the C API failed: {e:?}"))?);
    }
    Ok(out)
}

fn rust_state(db: &Db) -> Vec<J> {
    STATE_QUERIES
        .iter()
        .map(|q| match rust_read(db, &rd("state", q)) {
            Res::Rows(r) => J::Array(r),
            other => json!(format!("{other:?}")),
        })
        .collect()
}

/// The Rust API has no category enum; the engine labels its own messages ("syntax error: X",
/// "runtime error: X", "execution error: X").  Only labelled messages are judged: the label is the
/// Rust API's category.  Unlabelled messages ("Expected ')'", "not implemented: expression") are not.
fn expected_category(_phase: &str, msg: &str) -> Option<i32> {
    let m = msg.to_lowercase();
    if m.starts_with("syntax error") {
        Some(NDB_ERRCAT_SYNTAX)
    } else if m.starts_with("runtime error") || m.starts_with("execution error") || m.starts_with("type error") {
        Some(NDB_ERRCAT_EXECUTION)
    } else {
        None
    }
}

fn category_ok(phase: &str, msg: &str, got: i32) -> bool {
    expected_category(phase, msg).is_none_or(|w| w == got)
}

fn floats_close(a: &J, b: &J) -> bool {
    // serde_json's default float parser is not round-trip exact: the C API's JSON text is re-parsed
    // by this harness, so the last bit of a float may differ without the C API being wrong
    match (a, b) {
        (J::Number(x), J::Number(y)) => {
            if x == y {
                return true;
            }
            if x.is_f64() != y.is_f64() {
                return false;
            }
            match (x.as_f64(), y.as_f64()) {
                (Some(x), Some(y)) => x.is_sign_negative() == y.is_sign_negative() && (x - y).abs() <= f64::EPSILON * 4.0 * x.abs().max(y.abs()),
                _ => false,
            }
        }
        (J::Array(x), J::Array(y)) => x.len() == y.len() && x.iter().zip(y).all(|(a, b)| floats_close(a, b)),
        (J::Object(x), J::Object(y)) => x.len() == y.len() && x.iter().zip(y).all(|((ka, a), (kb, b))| ka == kb && floats_close(a, b)),
        _ => a == b,
    }
}

fn sorted(rows: &[J]) -> Vec<String> {
    let mut v: Vec<String> = rows.iter().map(|r| r.to_string()).collect();
    v.sort();
    v
}

fn check_stmt(s: &Stmt, dir: &Path) -> (Vec<(String, String)>, &'static str) {
    let _ = std::fs::remove_dir_all(dir);
    let _ = std::fs::create_dir_all(dir);
    let rb = dir.join("rust");
    let cb = dir.join("capi");
    let mut bad: Vec<(String, String)> = Vec::new();
    with_hooks(DetHooks::new(), || build(&rb));
    with_hooks(DetHooks::new(), || build(&cb));
    let rdb = Db::open(&rb).expect("open");
    let cdb = match CDb::open(&cb) {
        Ok(d) => d,
        Err(e) => return (vec![("harness".into(), format!("ndb_open: {e:?}"))], "harness"),
    };
    let ordered = s.text.contains("ORDER BY");
    // ---- read entry point
    let r_read = with_hooks(DetHooks::new(), || rust_read(&rdb, s));
    let c_read = with_hooks(DetHooks::new(), || catch(|| cdb.query(&s.text, s.params.as_deref())));
    let outcome: &'static str;
    match c_read {
        Err(p) => {
            bad.push(("capi_panics:ndb_query".into(), p));
            outcome = "panic";
        }
        Ok(c_read) => {
            if s.write {
                // must be refused, nothing may change
                outcome = "write_statement";
                match &c_read {
                    Ok(rows) => {
                        // a statement Rust cannot even compile is not a write the C API could accept either
                        if !matches!(r_read, Res::Fail("compile", _)) {
                            bad.push(("ndb_query_accepts_write".into(), format!("{} -> {}", s.text, truncate(&rows.to_string(), 200))));
                        }
                    }
                    Err(e) => {
                        // refused as documented (execution category), or - when it does not compile either - a syntax error
                        let compile_fails = matches!(r_read, Res::Fail("compile", _));
                        if !(e.category == NDB_ERRCAT_EXECUTION || (compile_fails && e.category == NDB_ERRCAT_SYNTAX)) {
                            bad.push(("refusal_category".into(), format!("{}: refused with category {} ({})", s.text, e.category, e.message)));
                        }
                    }
                }
            } else {
                match (&r_read, &c_read) {
                    (Res::Rows(r), Ok(J::Array(c))) => {
                        outcome = "rows";
                        let same = if ordered {
                            r.len() == c.len() && r.iter().zip(c).all(|(a, b)| floats_close(a, b))
                        } else {
                            sorted(r) == sorted(c) || {
                                let mut rs = r.clone();
                                let mut cs = c.clone();
                                rs.sort_by_key(|x| x.to_string());
                                cs.sort_by_key(|x| x.to_string());
                                rs.len() == cs.len() && rs.iter().zip(&cs).all(|(a, b)| floats_close(a, b))
                            }
                        };
                        if !same {
                            let class = if r.len() != c.len() { "row_count_differs" } else if r.iter().zip(c).any(|(a, b)| a.as_object().map(|o| o.len()) != b.as_object().map(|o| o.len())) { "columns_differ" } else { "values_differ" };
                            bad.push((class.into(), format!("{}{}: Rust {} / C {}", s.text, s.params.as_ref().map(|p| format!(" with {p}")).unwrap_or_default(), truncate(&J::Array(r.clone()).to_string(), 220), truncate(&J::Array(c.clone()).to_string(), 220))));
                        }
                    }
                    (Res::Fail(ph, m), Err(e)) => {
                        outcome = "both_fail";
                        if *ph != "params" && !category_ok(ph, m, e.category) {
                            bad.push(("category_differs".into(), format!("{}: Rust fails at {ph} with '{}', C API category {} ('{}')", s.text, truncate(m, 80), e.category, truncate(&e.message, 80))));
                        }
                    }
                    (Res::Rows(r), Err(e)) => {
                        outcome = "c_fails_only";
                        bad.push(("ndb_query_refuses_read".into(), format!("{}{}: Rust returns {} rows, C API fails: {}", s.text, s.params.as_ref().map(|p| format!(" with {p}")).unwrap_or_default(), r.len(), truncate(&e.message, 120))));
                    }
                    (Res::Fail(ph, m), Ok(c)) => {
                        outcome = "rust_fails_only";
                        bad.push(("ndb_query_succeeds_where_rust_fails".into(), format!("{}{}: Rust fails at {ph}: {}; C API returns {}", s.text, s.params.as_ref().map(|p| format!(" with {p}")).unwrap_or_default(), truncate(m, 100), truncate(&c.to_string(), 120))));
                    }
                    (a, b) => {
                        outcome = "other";
                        bad.push(("harness".into(), format!("{a:?} / {b:?}")));
                    }
                }
            }
        }
    }
    // the read entry point never changes the database
    match with_hooks(DetHooks::new(), || c_state(&cdb)) {
        Ok(cs) => {
            let rs = with_hooks(DetHooks::new(), || rust_state(&rdb));
            if cs != rs {
                bad.push(("ndb_query_changed_database".into(), format!("{}: state through C {} / untouched Rust copy {}", s.text, truncate(&J::Array(cs).to_string(), 200), truncate(&J::Array(rs).to_string(), 200))));
                return (bad, outcome);
            }
        }
        Err(e) => bad.push(("harness".into(), e)),
    }
    // ---- write entry point
    let r_w = if s.write { with_hooks(DetHooks::new(), || rust_write(&rdb, s)) } else { Res::Fail("refuse", "read statement".into()) };
    let c_w = with_hooks(DetHooks::new(), || catch(|| cdb.execute_write(&s.text, s.params.as_deref())));
    match c_w {
        Err(p) => bad.push(("capi_panics:ndb_execute_write".into(), p)),
        Ok(c_w) => match (&r_w, &c_w) {
            (Res::Count(a), Ok(b)) => {
                if a != b {
                    bad.push(("write_count_differs".into(), format!("{}: Rust {a} / C {b}", s.text)));
                }
            }
            (Res::Fail("refuse", _), Ok(n)) => {
                if !matches!(r_read, Res::Fail("compile", _)) {
                    bad.push(("ndb_execute_write_accepts_read".into(), format!("{} -> {n}", s.text)));
                }
            }
            (Res::Fail("refuse", _), Err(e)) => {
                let compile_fails = matches!(r_read, Res::Fail("compile", _));
                if !(e.category == NDB_ERRCAT_EXECUTION || (compile_fails && e.category == NDB_ERRCAT_SYNTAX)) {
                    bad.push(("refusal_category".into(), format!("{} via ndb_execute_write: category {} ({})", s.text, e.category, e.message)));
                }
            }
            (Res::Fail(ph, m), Err(e)) => {
                if *ph != "params" && !category_ok(ph, m, e.category) {
                    bad.push(("category_differs".into(), format!("{} via ndb_execute_write: Rust fails at {ph} with '{}', C category {} ('{}')", s.text, truncate(m, 80), e.category, truncate(&e.message, 80))));
                }
            }
            (Res::Count(a), Err(e)) => bad.push(("ndb_execute_write_refuses_write".into(), format!("{}: Rust commits {a} changes, C API fails: {}", s.text, truncate(&e.message, 120)))),
            (Res::Fail(ph, m), Ok(n)) => bad.push(("ndb_execute_write_succeeds_where_rust_fails".into(), format!("{}: Rust fails at {ph}: {}; C API reports {n} changes", s.text, truncate(m, 100)))),
            (a, b) => bad.push(("harness".into(), format!("{a:?} / {b:?}"))),
        },
    }
    // both databases must be in the same state afterwards
    match with_hooks(DetHooks::new(), || c_state(&cdb)) {
        Ok(cs) => {
            let rs = with_hooks(DetHooks::new(), || rust_state(&rdb));
            if cs != rs {
                bad.push(("state_differs_after_write".into(), format!("{}: C {} / Rust {}", s.text, truncate(&J::Array(cs).to_string(), 220), truncate(&J::Array(rs).to_string(), 220))));
            }
        }
        Err(e) => bad.push(("harness".into(), e)),
    }
    (bad, outcome)
}

pub fn c34(tier: Tier) -> i32 {
    let rep = Report::new("C34", tier);
    let stmts = corpus(tier == Tier::Thorough);
    rep.rule("every statement of a bounded corpus - value kinds (integers at the i64 edges, floats incl. -0.0 / NaN / infinities, strings with quotes / NUL / bidi, lists, maps, temporal values), graph values (nodes, relationships, paths, collections of them), parameters of every JSON kind and malformed parameter documents, compile-time and run-time failures, comment / case / whitespace / EXPLAIN forms, updates nested in CALL {} / FOREACH / UNION arms, keyword look-alikes in strings and names, a slice of the C11 read grammar and the C12 update statements - is submitted on two identical databases through (1) ndb_query and the Rust prepare + execute_streaming + reify path, (2) ndb_execute_write and the Rust execute_mixed + commit path; oracle: same rows (same multiset; same sequence under ORDER BY; same column set and values, JSON by the documented mapping), same change counts, the same final database state, read statements refused by the write entry point and update statements refused by the read entry point without any change, and the error category equal where the engine labels its message ('syntax error: ..' must arrive as the syntax category, 'runtime / execution error: ..' as the execution category; unlabelled messages are not judged); non-trivial = statements that return rows or change the database");
    let results: Vec<(usize, Vec<(String, String)>, &'static str)> = stmts
        .par_iter()
        .enumerate()
        .map_init(
            || scratch_dir("capi"),
            |dir, (i, s)| {
                let (bad, oc) = check_stmt(s, dir);
                (i, bad, oc)
            },
        )
        .collect();
    let mut per_family: std::collections::BTreeMap<&str, u64> = Default::default();
    for (i, bad, oc) in results {
        let s = &stmts[i];
        *per_family.entry(s.family).or_default() += 1;
        rep.add_states(2);
        rep.add_transitions(2);
        rep.add_traces(1);
        rep.add_evals(4);
        if oc == "rows" || s.write {
            rep.add_nontrivial(1);
        }
        rep.outcome(oc);
        for (class, detail) in bad {
            rep.outcome(&class);
            let mut kinds = vec![s.family.to_string(), truncate(&s.text, 70)];
            if detail.contains("non_finite_float") {
                kinds.push("non_finite_float".into());
            }
            rep.violation(Violation { class, kinds, replay: json!({"engine": "capi", "statement": s.text, "params": s.params}), detail });
        }
    }
    rep.set("corpus", json!({"statements": stmts.len(), "per_family": per_family}));
    rep.sample(json!({"statement": "MATCH (n {uid: 1}) CALL { WITH n SET n.v = 9 } RETURN n.v AS v", "entry_points": ["ndb_query (must refuse)", "ndb_execute_write"]}));
    rep.finish()
}
