//! Thin safe wrapper around the repository's C ABI (linked as an rlib), used the way a binding would.
use ndbcapi as c;
use serde_json::Value;
use std::ffi::{CStr, CString};
use std::os::raw::c_char;

#[derive(Debug, Clone, PartialEq)]
pub struct CErr {
    pub code: i32,
    pub category: i32,
    pub message: String,
}

fn last_error(code: i32) -> CErr {
    let mut buf = vec![0u8; 2048];
    let n = c::ndb_last_error_message(buf.as_mut_ptr().cast::<c_char>(), buf.len());
    let message = unsafe { CStr::from_ptr(buf.as_ptr().cast::<c_char>()) }.to_string_lossy().into_owned();
    let _ = n;
    CErr { code, category: c::ndb_last_error_category(), message }
}

pub struct CDb {
    pub ptr: *mut c::ndb_db_t,
}
unsafe impl Send for CDb {}
unsafe impl Sync for CDb {}

impl CDb {
    pub fn open(path: &std::path::Path) -> Result<CDb, CErr> {
        let p = CString::new(path.to_string_lossy().as_bytes()).unwrap();
        let mut out: *mut c::ndb_db_t = std::ptr::null_mut();
        let rc = c::ndb_open(p.as_ptr(), &mut out);
        if rc != c::NDB_OK { Err(last_error(rc)) } else { Ok(CDb { ptr: out }) }
    }
    pub fn close(mut self) -> Result<(), CErr> {
        let rc = c::ndb_close(self.ptr);
        self.ptr = std::ptr::null_mut();
        if rc != c::NDB_OK { Err(last_error(rc)) } else { Ok(()) }
    }
    /// Leaks the handle (simulates a process that never calls close).
    pub fn forget(mut self) {
        self.ptr = std::ptr::null_mut();
    }
    pub fn query(&self, cypher: &str, params_json: Option<&str>) -> Result<Value, CErr> {
        let q = CString::new(cypher).map_err(|_| CErr { code: -1, category: 0, message: "NUL in query".into() })?;
        let pj = params_json.map(|p| CString::new(p).unwrap());
        let mut res: *mut c::ndb_result_t = std::ptr::null_mut();
        let rc = c::ndb_query(self.ptr, q.as_ptr(), pj.as_ref().map(|p| p.as_ptr()).unwrap_or(std::ptr::null()), &mut res);
        if rc != c::NDB_OK {
            return Err(last_error(rc));
        }
        let mut js: *mut c_char = std::ptr::null_mut();
        let rc = c::ndb_result_to_json(res, &mut js);
        if rc != c::NDB_OK {
            c::ndb_result_free(res);
            return Err(last_error(rc));
        }
        let text = unsafe { CStr::from_ptr(js) }.to_string_lossy().into_owned();
        c::ndb_string_free(js);
        c::ndb_result_free(res);
        serde_json::from_str(&text).map_err(|e| CErr { code: -2, category: 0, message: format!("result JSON does not parse: {e}: {text}") })
    }
    /// Raw byte string as the query text (bytes after the first NUL are not seen by the C API).
    pub fn query_bytes(&self, bytes: &[u8]) -> Result<(), CErr> {
        let cut: Vec<u8> = bytes.iter().copied().take_while(|b| *b != 0).collect();
        let q = CString::new(cut).unwrap();
        let mut res: *mut c::ndb_result_t = std::ptr::null_mut();
        let rc = c::ndb_query(self.ptr, q.as_ptr(), std::ptr::null(), &mut res);
        if rc != c::NDB_OK {
            return Err(last_error(rc));
        }
        c::ndb_result_free(res);
        Ok(())
    }
    pub fn execute_write(&self, cypher: &str, params_json: Option<&str>) -> Result<u32, CErr> {
        let q = CString::new(cypher).map_err(|_| CErr { code: -1, category: 0, message: "NUL in query".into() })?;
        let pj = params_json.map(|p| CString::new(p).unwrap());
        let mut n: u32 = 0;
        let rc = c::ndb_execute_write(self.ptr, q.as_ptr(), pj.as_ref().map(|p| p.as_ptr()).unwrap_or(std::ptr::null()), &mut n);
        if rc != c::NDB_OK { Err(last_error(rc)) } else { Ok(n) }
    }
    pub fn begin_write(&self) -> Result<CTxn, CErr> {
        let mut t: *mut c::ndb_txn_t = std::ptr::null_mut();
        let rc = c::ndb_begin_write(self.ptr, &mut t);
        if rc != c::NDB_OK { Err(last_error(rc)) } else { Ok(CTxn { ptr: t }) }
    }
    pub fn compact(&self) -> Result<(), CErr> {
        let rc = c::ndb_compact(self.ptr);
        if rc != c::NDB_OK { Err(last_error(rc)) } else { Ok(()) }
    }
    pub fn create_index(&self, label: &str, prop: &str) -> Result<(), CErr> {
        let l = CString::new(label).unwrap();
        let p = CString::new(prop).unwrap();
        let rc = c::ndb_create_index(self.ptr, l.as_ptr(), p.as_ptr());
        if rc != c::NDB_OK { Err(last_error(rc)) } else { Ok(()) }
    }
}

impl Drop for CDb {
    fn drop(&mut self) {
        if !self.ptr.is_null() {
            // dropping without close: free the handle without the close-time checkpoint
            let _ = c::ndb_close(self.ptr);
        }
    }
}

pub struct CTxn {
    ptr: *mut c::ndb_txn_t,
}
unsafe impl Send for CTxn {}

impl CTxn {
    pub fn query(&mut self, cypher: &str, params_json: Option<&str>) -> Result<(), CErr> {
        let q = CString::new(cypher).map_err(|_| CErr { code: -1, category: 0, message: "NUL in query".into() })?;
        let pj = params_json.map(|p| CString::new(p).unwrap());
        let rc = c::ndb_txn_query(self.ptr, q.as_ptr(), pj.as_ref().map(|p| p.as_ptr()).unwrap_or(std::ptr::null()));
        if rc != c::NDB_OK { Err(last_error(rc)) } else { Ok(()) }
    }
    pub fn commit(mut self) -> Result<(), CErr> {
        let rc = c::ndb_txn_commit(self.ptr);
        self.ptr = std::ptr::null_mut();
        if rc != c::NDB_OK { Err(last_error(rc)) } else { Ok(()) }
    }
    pub fn rollback(mut self) -> Result<(), CErr> {
        let rc = c::ndb_txn_rollback(self.ptr);
        self.ptr = std::ptr::null_mut();
        if rc != c::NDB_OK { Err(last_error(rc)) } else { Ok(()) }
    }
}

impl Drop for CTxn {
    fn drop(&mut self) {
        if !self.ptr.is_null() {
            let _ = c::ndb_txn_rollback(self.ptr);
        }
    }
}
