//! Expression-level E-QUERY checks: C20 (ORDER BY / SKIP / LIMIT), C21 (aggregates),
//! C22 (runtime errors are never swallowed), C23 (expression laws).
use crate::common::*;
use crate::qry::*;
use nervusdb::query::{Params, PreparedQuery, Value, prepare};
use rayon::prelude::*;
use serde_json::json;
use std::collections::BTreeMap;

fn vint(i: i64) -> Value {
    Value::Int(i)
}

const P53: i64 = 9_007_199_254_740_992;

/// Value alphabet (no graph entities).
pub fn alphabet_v() -> Vec<(String, Value)> {
    let mut v: Vec<(String, Value)> = Vec::new();
    for i in [0i64, 1, -1, 2, P53, P53 + 1, P53 + 2, i64::MIN, i64::MAX] {
        v.push((format!("int:{i}"), vint(i)));
    }
    for (n, f) in [("0.0", 0.0f64), ("-0.0", -0.0), ("0.5", 0.5), ("2^53", P53 as f64), ("1.0", 1.0), ("-0.5", -0.5), ("-1.5", -1.5), ("2^63", 9223372036854775808.0), ("-2^63", -9223372036854775808.0), ("inf", f64::INFINITY), ("-inf", f64::NEG_INFINITY), ("NaN", f64::NAN)] {
        v.push((format!("float:{n}"), Value::Float(f)));
    }
    v.push(("null".into(), Value::Null));
    v.push(("true".into(), Value::Bool(true)));
    v.push(("false".into(), Value::Bool(false)));
    for s in ["", "a", "B", "2020-01-01", "2020-1-1", "2020-1-2", "2020-01-10", "2020-1", "12:00", "é"] {
        v.push((format!("str:{s:?}"), Value::String(s.to_string())));
    }
    v.push(("list:[1]".into(), Value::List(vec![vint(1)])));
    v.push(("list:[1,null]".into(), Value::List(vec![vint(1), Value::Null])));
    v.push(("map:{a:1}".into(), Value::Map(BTreeMap::from([("a".to_string(), vint(1))]))));
    v
}

fn kind_of(v: &Value) -> &'static str {
    match v {
        Value::Int(_) => "int",
        Value::Float(_) => "float",
        Value::Null => "null",
        Value::Bool(_) => "bool",
        Value::String(_) => "string",
        Value::List(_) => "list",
        Value::Map(_) => "map",
        _ => "other",
    }
}

struct Evaluator {
    qdb: QDb,
    cache: std::sync::Mutex<BTreeMap<String, std::sync::Arc<Result<PreparedQuery, String>>>>,
}

impl Evaluator {
    fn new() -> Self {
        Evaluator { qdb: QDb::new(), cache: std::sync::Mutex::new(BTreeMap::new()) }
    }
    fn prepared(&self, q: &str) -> std::sync::Arc<Result<PreparedQuery, String>> {
        let mut c = self.cache.lock().unwrap();
        c.entry(q.to_string()).or_insert_with(|| std::sync::Arc::new(prepare(q).map_err(|e| e.to_string()))).clone()
    }
    /// Rows of a query with parameters.
    fn rows(&self, q: &str, params: &[(&str, Value)]) -> Result<Vec<CRow>, QErr> {
        let p = self.prepared(q);
        let p = match &*p {
            Ok(p) => p,
            Err(e) => return Err(QErr::Compile(e.clone())),
        };
        let mut ps = Params::new();
        for (k, v) in params {
            ps.insert(*k, v.clone());
        }
        let r = catch(|| -> Result<Vec<CRow>, QErr> {
            let snap = self.qdb.db().snapshot();
            let mut out = Vec::new();
            for row in p.execute_streaming(&snap, &ps) {
                let row = row.map_err(|e| QErr::Runtime(e.to_string()))?;
                out.push(row.columns().iter().map(|(_, v)| canon(&snap, v)).collect());
            }
            Ok(out)
        });
        match r {
            Ok(x) => x,
            Err(p) => Err(QErr::Panic(p)),
        }
    }
    /// Single value of `RETURN <expr> AS r`.
    fn value(&self, expr: &str, params: &[(&str, Value)]) -> Result<CV, QErr> {
        let rows = self.rows(&format!("RETURN {expr} AS r"), params)?;
        rows.first().and_then(|r| r.first()).cloned().ok_or_else(|| QErr::Runtime("no row".into()))
    }
}

// exact comparison of two numeric values (i64 / f64, no NaN)
fn num_cmp(a: &Value, b: &Value) -> Option<std::cmp::Ordering> {
    use std::cmp::Ordering::*;
    fn int_float(i: i64, f: f64) -> std::cmp::Ordering {
        if f == f64::INFINITY {
            return Less;
        }
        if f == f64::NEG_INFINITY {
            return Greater;
        }
        // compare i with f exactly: split f into integer and fractional part
        let fl = f.floor();
        if fl >= 9.3e18 {
            return Less;
        }
        if fl <= -9.3e18 {
            return Greater;
        }
        let fi = fl as i128;
        let ii = i as i128;
        if ii < fi {
            Less
        } else if ii > fi {
            Greater
        } else if f > fl {
            Less
        } else {
            Equal
        }
    }
    match (a, b) {
        (Value::Int(x), Value::Int(y)) => Some(x.cmp(y)),
        (Value::Float(x), Value::Float(y)) => x.partial_cmp(y),
        (Value::Int(x), Value::Float(y)) => {
            if y.is_nan() {
                None
            } else {
                Some(int_float(*x, *y))
            }
        }
        (Value::Float(x), Value::Int(y)) => {
            if x.is_nan() {
                None
            } else {
                Some(int_float(*y, *x).reverse())
            }
        }
        _ => None,
    }
}

fn is_num(v: &Value) -> bool {
    matches!(v, Value::Int(_) | Value::Float(_))
}
fn is_nan(v: &Value) -> bool {
    matches!(v, Value::Float(f) if f.is_nan())
}

// ---------------------------------------------------------------------------------------------
// C23 Expression evaluation obeys Cypher laws
// ---------------------------------------------------------------------------------------------

pub fn c23(tier: Tier) -> i32 {
    let rep = Report::new("C23", tier);
    rep.rule("all pairs (and, for transitivity, all triples of the numeric sub-alphabet; thorough: all triples) over a 30-value alphabet (64-bit boundary integers, 2^53 neighbours, signed zeros, infinities, NaN, null, booleans, strings, lists, maps) substituted as parameters into expression templates: exhaustive truth tables of AND/OR/XOR/NOT over {true,false,null}, De Morgan, null propagation through + - * / % ^ and = <> < <= > >=, reflexivity / symmetry / transitivity of =, trichotomy and mutual consistency of < <= > >= with = decided against exact rational comparison, and the integer overflow rule of + - * unary minus abs (exact Int when it fits, otherwise the Float fallback); non-trivial = template instances evaluated");
    let ev = Evaluator::new();
    let vals = alphabet_v();
    let tri = [("true", Value::Bool(true)), ("false", Value::Bool(false)), ("null", Value::Null)];
    let t3 = |v: &Value| -> Option<bool> {
        match v {
            Value::Bool(b) => Some(*b),
            _ => None,
        }
    };
    let cv3 = |o: Option<bool>| match o {
        Some(b) => CV::Bool(b),
        None => CV::Null,
    };
    let viol = |class: &str, kinds: Vec<String>, expr: &str, params: &[(&str, &str)], detail: String| Violation { class: class.to_string(), kinds, replay: json!({"engine":"expr","expr": expr, "params": params.iter().map(|(k, v)| format!("{k}={v}")).collect::<Vec<_>>()}), detail };
    let mut n = 0u64;
    // L1 truth tables
    for (an, a) in &tri {
        let want = cv3(t3(a).map(|b| !b));
        n += 1;
        match ev.value("NOT $a", &[("a", a.clone())]) {
            Ok(g) if g == want => {}
            other => rep.violation(viol("truth_table:NOT", vec!["NOT".into()], "NOT $a", &[("a", an)], format!("got {other:?} want {}", want.show()))),
        }
        for (bn, b) in &tri {
            let (x, y) = (t3(a), t3(b));
            let and = match (x, y) {
                (Some(false), _) | (_, Some(false)) => Some(false),
                (Some(true), Some(true)) => Some(true),
                _ => None,
            };
            let or = match (x, y) {
                (Some(true), _) | (_, Some(true)) => Some(true),
                (Some(false), Some(false)) => Some(false),
                _ => None,
            };
            let xor = match (x, y) {
                (Some(p), Some(q)) => Some(p != q),
                _ => None,
            };
            for (op, want) in [("AND", and), ("OR", or), ("XOR", xor)] {
                n += 1;
                let e = format!("$a {op} $b");
                match ev.value(&e, &[("a", a.clone()), ("b", b.clone())]) {
                    Ok(g) if g == cv3(want) => {}
                    other => rep.violation(viol(&format!("truth_table:{op}"), vec![op.to_string()], &e, &[("a", an), ("b", bn)], format!("got {other:?} want {}", cv3(want).show()))),
                }
            }
            // De Morgan
            n += 2;
            let l = ev.value("NOT ($a AND $b)", &[("a", a.clone()), ("b", b.clone())]);
            let r = ev.value("(NOT $a) OR (NOT $b)", &[("a", a.clone()), ("b", b.clone())]);
            if l != r {
                rep.violation(viol("de_morgan", vec!["AND".into(), "OR".into(), "NOT".into()], "NOT ($a AND $b) vs (NOT $a) OR (NOT $b)", &[("a", an), ("b", bn)], format!("{l:?} vs {r:?}")));
            }
            let l = ev.value("NOT ($a OR $b)", &[("a", a.clone()), ("b", b.clone())]);
            let r = ev.value("(NOT $a) AND (NOT $b)", &[("a", a.clone()), ("b", b.clone())]);
            if l != r {
                rep.violation(viol("de_morgan", vec!["AND".into(), "OR".into(), "NOT".into()], "NOT ($a OR $b) vs (NOT $a) AND (NOT $b)", &[("a", an), ("b", bn)], format!("{l:?} vs {r:?}")));
            }
        }
    }
    // L3 null propagation
    for (an, a) in &vals {
        for op in ["+", "-", "*", "/", "%", "^", "=", "<>", "<", "<=", ">", ">="] {
            for (e, ps) in [(format!("$a {op} null"), vec![("a", a.clone())]), (format!("null {op} $a"), vec![("a", a.clone())])] {
                n += 1;
                match ev.value(&e, &ps) {
                    Ok(CV::Null) => {}
                    Err(QErr::Runtime(_)) | Err(QErr::Compile(_)) => rep.outcome("null_propagation:error_instead_of_null"),
                    other => rep.violation(viol("null_propagation", vec![format!("op:{op}"), kind_of(a).to_string()], &e, &[("a", an)], format!("got {other:?}, expected null"))),
                }
            }
        }
    }
    // L4 / L5 equality and ordering over all pairs
    let pairs: Vec<(usize, usize)> = (0..vals.len()).flat_map(|i| (0..vals.len()).map(move |j| (i, j))).collect();
    let eqtab: Vec<Vec<Option<CV>>> = {
        let rows: Vec<(usize, usize, Option<CV>)> = pairs.par_iter().map(|&(i, j)| (i, j, ev.value("$a = $b", &[("a", vals[i].1.clone()), ("b", vals[j].1.clone())]).ok())).collect();
        let mut t = vec![vec![None; vals.len()]; vals.len()];
        for (i, j, v) in rows {
            t[i][j] = v;
        }
        t
    };
    n += pairs.len() as u64;
    for &(i, j) in &pairs {
        let (an, a) = &vals[i];
        let (bn, b) = &vals[j];
        let kinds_v = vec![kind_of(a).to_string(), kind_of(b).to_string()];
        if i == j && !matches!(a, Value::Null) && !is_nan(a) && !matches!(a, Value::List(l) if l.contains(&Value::Null)) && eqtab[i][i] != Some(CV::Bool(true)) {
            rep.violation(viol("equality_not_reflexive", kinds_v.clone(), "$a = $a", &[("a", an)], format!("{:?}", eqtab[i][i])));
        }
        if eqtab[i][j] != eqtab[j][i] {
            rep.violation(viol("equality_not_symmetric", kinds_v.clone(), "$a = $b vs $b = $a", &[("a", an), ("b", bn)], format!("{:?} vs {:?}", eqtab[i][j], eqtab[j][i])));
        }
        if is_num(a) && is_num(b) && !is_nan(a) && !is_nan(b) {
            let exact = num_cmp(a, b).unwrap();
            let ps = [("a", a.clone()), ("b", b.clone())];
            for (op, want) in [("=", exact.is_eq()), ("<>", exact.is_ne()), ("<", exact.is_lt()), ("<=", exact.is_le()), (">", exact.is_gt()), (">=", exact.is_ge())] {
                n += 1;
                let e = format!("$a {op} $b");
                match ev.value(&e, &ps) {
                    Ok(CV::Bool(g)) if g == want => {}
                    other => rep.violation(viol(&format!("numeric_comparison:{op}"), kinds_v.clone(), &e, &[("a", an), ("b", bn)], format!("got {other:?}, exact comparison says {want}"))),
                }
            }
        }
    }
    // transitivity of = over all triples of non-null values
    let idx: Vec<usize> = (0..vals.len()).filter(|i| !matches!(vals[*i].1, Value::Null) && !is_nan(&vals[*i].1)).collect();
    let is_true = |i: usize, j: usize| eqtab[i][j] == Some(CV::Bool(true));
    for &i in &idx {
        for &j in &idx {
            if !is_true(i, j) {
                continue;
            }
            for &k in &idx {
                n += 1;
                if is_true(j, k) && !is_true(i, k) {
                    rep.violation(viol("equality_not_transitive", vec![kind_of(&vals[i].1).to_string(), kind_of(&vals[j].1).to_string(), kind_of(&vals[k].1).to_string()], "$a = $b, $b = $c, $a = $c", &[("a", &vals[i].0), ("b", &vals[j].0), ("c", &vals[k].0)], format!("a=b and b=c hold but a=c is {:?}", eqtab[i][k])));
                }
            }
        }
    }
    // L6 overflow rule on boundary integers
    let ints: Vec<i64> = vec![0, 1, -1, 2, 3, i64::MAX, i64::MAX - 1, i64::MIN, i64::MIN + 1, P53, P53 + 1, 1 << 31, 1 << 32, -(1 << 32), 3_037_000_500];
    for &a in &ints {
        for (e, exact) in [("-$a", -(a as i128)), ("abs($a)", (a as i128).abs())] {
            n += 1;
            check_overflow(&rep, &ev, e, &[("a", a)], exact);
        }
        for &b in &ints {
            for (op, exact) in [("+", a as i128 + b as i128), ("-", a as i128 - b as i128), ("*", a as i128 * b as i128)] {
                n += 1;
                check_overflow(&rep, &ev, &format!("$a {op} $b"), &[("a", a), ("b", b)], exact);
            }
        }
    }
    rep.add_states(vals.len() as u64 + ints.len() as u64);
    rep.add_transitions(n);
    rep.add_traces(n);
    rep.add_evals(n);
    rep.add_nontrivial(n);
    rep.sample(json!({"template": "$a < $b", "a": "int:9007199254740993", "b": "float:2^53"}));
    rep.outcome(if rep.violation_count() == 0 { "laws_hold" } else { "law_broken" });
    rep.outcome("evaluated");
    rep.finish()
}

fn check_overflow(rep: &Report, ev: &Evaluator, expr: &str, params: &[(&str, i64)], exact: i128) {
    let ps: Vec<(&str, Value)> = params.iter().map(|(k, v)| (*k, vint(*v))).collect();
    let pdesc: Vec<String> = params.iter().map(|(k, v)| format!("{k}={v}")).collect();
    let got = ev.value(expr, &ps);
    let fits = exact >= i64::MIN as i128 && exact <= i64::MAX as i128;
    let ok = match &got {
        Ok(CV::Int(i)) => fits && *i as i128 == exact,
        Ok(CV::Float(bits)) => {
            let f = f64::from_bits(*bits);
            !fits && (f - exact as f64).abs() <= (exact as f64).abs() * 1e-15
        }
        Err(QErr::Runtime(_)) => !fits, // an overflow error is an acceptable, non-silent rule
        _ => false,
    };
    if !ok {
        let class = if matches!(got, Ok(CV::Int(_))) && !fits { "integer_overflow_wraps" } else { "integer_arithmetic_wrong" };
        rep.violation(Violation { class: class.into(), kinds: vec![expr.to_string()], replay: json!({"engine":"expr","expr": expr, "params": pdesc}), detail: format!("got {got:?}, exact result {exact}") });
    }
}

// ---------------------------------------------------------------------------------------------
// C22 Runtime errors are never swallowed
// ---------------------------------------------------------------------------------------------

pub fn c22(tier: Tier) -> i32 {
    let rep = Report::new("C22", tier);
    rep.rule("failing expressions E (invalid toBoolean / toInteger / toFloat / toString arguments, labels() / type() on scalars, list index of the wrong type, range() above the collection limit) x row lists of length 3 (thorough: 5) with the failing row at every position x result operators W (RETURN, RETURN DISTINCT, UNION, UNION ALL (either arm), ORDER BY, WITH..WHERE, WITH DISTINCT, count / collect, CALL {}, SKIP 0, LIMIT 3, list comprehension, CASE, sort keys that hide the call in CASE / a comprehension / a list, ORDER BY followed by a LIMIT that keeps fewer rows, several aggregates in one projection with count(*) first); a control run with only good rows must succeed; oracle: collecting the result yields an error; non-trivial = (E, position, W) instances whose control run succeeded");
    let ev = Evaluator::new();
    // (name, expression over x, good values, bad value)
    let exprs: Vec<(&str, &str, Vec<Value>, Value)> = vec![
        ("toBoolean(int)", "toBoolean(x)", vec![Value::Bool(true), Value::String("false".into())], vint(1)),
        ("toInteger(bool)", "toInteger(x)", vec![vint(1), Value::String("2".into())], Value::Bool(true)),
        ("toInteger(list)", "toInteger(x)", vec![vint(1), Value::Float(2.5)], Value::List(vec![vint(1)])),
        ("toFloat(bool)", "toFloat(x)", vec![vint(1), Value::Float(2.5)], Value::Bool(false)),
        ("toString(list)", "toString(x)", vec![vint(1), Value::String("a".into())], Value::List(vec![vint(1)])),
        ("labels(scalar)", "labels(x)", vec![Value::Null, Value::Null], vint(1)),
        ("type(scalar)", "type(x)", vec![Value::Null, Value::Null], Value::String("a".into())),
        ("index(bad type)", "[1,2,3][x]", vec![vint(0), vint(1)], Value::String("a".into())),
    ];
    let wrappers: Vec<(&str, Box<dyn Fn(&str) -> String + Sync>)> = vec![
        ("RETURN", Box::new(|e| format!("UNWIND $l AS x RETURN {e} AS r"))),
        ("RETURN_DISTINCT", Box::new(|e| format!("UNWIND $l AS x RETURN DISTINCT {e} AS r"))),
        ("UNION_left", Box::new(|e| format!("UNWIND $l AS x RETURN {e} AS r UNION RETURN null AS r"))),
        ("UNION_right", Box::new(|e| format!("RETURN null AS r UNION UNWIND $l AS x RETURN {e} AS r"))),
        ("UNION_ALL_left", Box::new(|e| format!("UNWIND $l AS x RETURN {e} AS r UNION ALL RETURN null AS r"))),
        ("UNION_ALL_right", Box::new(|e| format!("RETURN null AS r UNION ALL UNWIND $l AS x RETURN {e} AS r"))),
        ("ORDER_BY", Box::new(|e| format!("UNWIND $l AS x RETURN {e} AS r ORDER BY r"))),
        ("ORDER_BY_expr", Box::new(|e| format!("UNWIND $l AS x RETURN x AS r ORDER BY {e}"))),
        ("WITH_WHERE", Box::new(|e| format!("UNWIND $l AS x WITH {e} AS r WHERE true RETURN r"))),
        ("WHERE_expr", Box::new(|e| format!("UNWIND $l AS x WITH x WHERE {e} IS NOT NULL OR true RETURN x AS r"))),
        ("WITH_DISTINCT", Box::new(|e| format!("UNWIND $l AS x WITH DISTINCT {e} AS r RETURN r"))),
        ("count", Box::new(|e| format!("UNWIND $l AS x RETURN count({e}) AS r"))),
        ("collect", Box::new(|e| format!("UNWIND $l AS x RETURN collect({e}) AS r"))),
        ("CALL_subquery", Box::new(|e| format!("UNWIND $l AS x CALL {{ WITH x RETURN {e} AS r }} RETURN r"))),
        ("SKIP_0", Box::new(|e| format!("UNWIND $l AS x RETURN {e} AS r SKIP 0"))),
        ("LIMIT_3", Box::new(|e| format!("UNWIND $l AS x RETURN {e} AS r LIMIT 3"))),
        ("list_comprehension", Box::new(|e| format!("RETURN [x IN $l | {e}] AS r"))),
        ("CASE", Box::new(|e| format!("UNWIND $l AS x RETURN CASE WHEN true THEN {e} ELSE null END AS r"))),
        ("DISTINCT_ORDER_BY", Box::new(|e| format!("UNWIND $l AS x RETURN DISTINCT {e} AS r ORDER BY r"))),
        ("count_DISTINCT", Box::new(|e| format!("UNWIND $l AS x RETURN count(DISTINCT {e}) AS r"))),
        ("WITH_DISTINCT_then_UNION", Box::new(|e| format!("UNWIND $l AS x WITH DISTINCT {e} AS r RETURN r UNION RETURN null AS r"))),
        ("CALL_DISTINCT", Box::new(|e| format!("UNWIND $l AS x CALL {{ WITH x RETURN DISTINCT {e} AS r }} RETURN r"))),
        // the failing call hidden inside CASE / a comprehension of the sort key
        ("ORDER_BY_CASE", Box::new(|e| format!("UNWIND $l AS x RETURN x AS r ORDER BY CASE WHEN true THEN {e} ELSE null END"))),
        ("ORDER_BY_comprehension", Box::new(|e| format!("UNWIND $l AS x RETURN x AS r ORDER BY [z IN [1] | {e}][0]"))),
        ("ORDER_BY_list", Box::new(|e| format!("UNWIND $l AS x RETURN x AS r ORDER BY [{e}, 1]"))),
        // ORDER BY consumes every row even when LIMIT keeps only the first ones
        ("ORDER_BY_LIMIT_1", Box::new(|e| format!("UNWIND $l AS x RETURN {e} AS r ORDER BY r LIMIT 1"))),
        ("ORDER_BY_DESC_LIMIT_2", Box::new(|e| format!("UNWIND $l AS x RETURN {e} AS r ORDER BY r DESC LIMIT 2"))),
        ("WITH_ORDER_BY_LIMIT_1", Box::new(|e| format!("UNWIND $l AS x WITH {e} AS r ORDER BY r LIMIT 1 RETURN r"))),
        // several aggregates in one projection
        ("count_star_then_collect", Box::new(|e| format!("UNWIND $l AS x RETURN count(*) AS n, collect({e}) AS r"))),
        ("count_star_expr_then_count", Box::new(|e| format!("UNWIND $l AS x RETURN count(*) + 0 AS n, count({e}) AS r"))),
        ("collect_then_count", Box::new(|e| format!("UNWIND $l AS x RETURN collect(x) AS a, count({e}) AS r"))),
        ("grouped_count_star_then_collect", Box::new(|e| format!("UNWIND $l AS x RETURN 1 AS k, count(*) AS n, collect({e}) AS r"))),
        ("min_max", Box::new(|e| format!("UNWIND $l AS x RETURN min({e}) AS a, max({e}) AS r"))),
    ];
    let len = tier.pick(3usize, 5);
    let mut n = 0u64;
    for (ename, e, good, bad) in &exprs {
        for (wname, w) in &wrappers {
            let q = w(e);
            // control: only good rows
            let good_list: Vec<Value> = (0..len).map(|i| good[i % 2].clone()).collect();
            let control = ev.rows(&q, &[("l", Value::List(good_list.clone()))]);
            if let Err(err) = &control {
                rep.outcome(&format!("control_fails:{}", err.class()));
                continue;
            }
            for pos in 0..len {
                // LIMIT-style wrappers only consume a prefix: keep the failing row inside it
                if wname.contains("LIMIT_3") && pos >= 3 {
                    continue;
                }
                let mut l = good_list.clone();
                l[pos] = bad.clone();
                n += 1;
                rep.add_nontrivial(1);
                let r = ev.rows(&q, &[("l", Value::List(l))]);
                match r {
                    Err(QErr::Runtime(_)) | Err(QErr::Compile(_)) => rep.outcome("error_reported"),
                    Err(QErr::Panic(p)) => rep.violation(Violation { class: "panic_instead_of_error".into(), kinds: vec![wname.to_string(), ename.to_string()], replay: json!({"engine":"expr","query": q, "bad_row": pos}), detail: p }),
                    Ok(rows) => {
                        rep.outcome("swallowed");
                        rep.violation(Violation { class: format!("error_swallowed:{wname}"), kinds: vec![wname.to_string(), ename.to_string(), format!("bad_row_at_{pos}")], replay: json!({"engine":"expr","query": q, "bad_row": pos}), detail: format!("query returned {} instead of an error", show_rows(&rows)) });
                    }
                }
            }
        }
    }
    // range() above the collection limit must be an error in every wrapper that consumes it
    for q in ["RETURN size(range(1, 1000000000)) AS r", "UNWIND range(1, 1000000000) AS x RETURN count(x) AS r", "RETURN DISTINCT size(range(1, 1000000000)) AS r"] {
        n += 1;
        match ev.rows(q, &[]) {
            Err(QErr::Runtime(_)) | Err(QErr::Compile(_)) => rep.outcome("error_reported"),
            other => rep.violation(Violation { class: "limit_error_swallowed".into(), kinds: vec!["range".into()], replay: json!({"engine":"expr","query": q}), detail: format!("{other:?}") }),
        }
    }
    rep.add_states(exprs.len() as u64 * wrappers.len() as u64);
    rep.add_transitions(n);
    rep.add_traces(n);
    rep.add_evals(n);
    rep.sample(json!({"query": "UNWIND $l AS x RETURN DISTINCT toBoolean(x) AS r", "l": "[true, 1, true]"}));
    rep.finish()
}

// ---------------------------------------------------------------------------------------------
// C21 Aggregates agree with their definitions
// ---------------------------------------------------------------------------------------------

fn all_lists(alpha: &[Value], max_len: usize) -> Vec<Vec<Value>> {
    let mut out: Vec<Vec<Value>> = vec![vec![]];
    let mut level: Vec<Vec<Value>> = vec![vec![]];
    for _ in 0..max_len {
        let mut next = Vec::new();
        for l in &level {
            for v in alpha {
                let mut n = l.clone();
                n.push(v.clone());
                next.push(n);
            }
        }
        out.extend(next.iter().cloned());
        level = next;
    }
    out
}

fn to_cv(v: &Value) -> CV {
    match v {
        Value::Null => CV::Null,
        Value::Bool(b) => CV::Bool(*b),
        Value::Int(i) => CV::Int(*i),
        Value::Float(f) => CV::float(*f),
        Value::String(s) => CV::Str(s.clone()),
        Value::List(l) => CV::List(l.iter().map(to_cv).collect()),
        Value::Map(m) => CV::Map(m.iter().map(|(k, v)| (k.clone(), to_cv(v))).collect()),
        other => CV::Other(format!("{other:?}")),
    }
}

pub fn c21(tier: Tier) -> i32 {
    let rep = Report::new("C21", tier);
    rep.rule("all lists up to the stated length over {1, -1, 2, i64::MAX, i64::MIN, 0.5, null} (sum / avg / min / max / count / collect, plain and DISTINCT) over {0.0, -0.0, 0, 1, 1.0, null} (numbers with several representations: 0.0 and -0.0 are one value for DISTINCT, any representation is a correct min / max; whether 1 and 1.0 are one value for DISTINCT is not judged) and over {1, 2, null, 'a', [1]} (count / collect / min / max within one type), each also with every grouping-key list of the same length over {1, 2, null}; oracle: count(*) = group size, count = non-null count, collect = the non-null values (as a multiset), min / max = fold with exact numeric comparison, sum = exact integer sum when every value is an integer and the sum fits (otherwise an error or a Float close to the exact value, never a wrapped Int), avg within 1e-12 relative, one row per distinct key; non-trivial = (list, grouping, aggregate) instances");
    let ev = Evaluator::new();
    let num_alpha: Vec<Value> = vec![vint(1), vint(-1), vint(2), vint(i64::MAX), vint(i64::MIN), Value::Float(0.5), Value::Null];
    let mixed_alpha: Vec<Value> = vec![vint(1), vint(2), Value::Null, Value::String("a".into()), Value::List(vec![vint(1)])];
    let maxlen = tier.pick(4usize, 5);
    let lists = all_lists(&num_alpha, maxlen);
    let keys_alpha = [vint(1), vint(2), Value::Null];
    let n = std::sync::atomic::AtomicU64::new(0);
    let check_numeric = |l: &[Value], keys: Option<&[Value]>| {
        // rows: (k, x)
        let rows: Vec<Value> = l.iter().enumerate().map(|(i, x)| Value::List(vec![keys.map(|k| k[i].clone()).unwrap_or(Value::Null), x.clone()])).collect();
        let q = "UNWIND $rows AS row WITH row[0] AS k, row[1] AS x RETURN k, count(*) AS n, count(x) AS c, sum(x) AS s, min(x) AS mn, max(x) AS mx, avg(x) AS av, collect(x) AS co, count(DISTINCT x) AS cd, sum(DISTINCT x) AS sd";
        n.fetch_add(1, std::sync::atomic::Ordering::Relaxed);
        let got = ev.rows(q, &[("rows", Value::List(rows))]);
        let desc = json!({"engine":"expr","query": q, "values": l.iter().map(|v| to_cv(v).show()).collect::<Vec<_>>(), "keys": keys.map(|k| k.iter().map(|v| to_cv(v).show()).collect::<Vec<_>>())});
        let mk = |class: &str, detail: String| Violation { class: class.to_string(), kinds: vec![if keys.is_some() { "grouped".into() } else { "ungrouped".into() }, format!("len{}", l.len())], replay: desc.clone(), detail };
        let got = match got {
            Ok(g) => g,
            Err(QErr::Runtime(m)) => {
                // only an overflowing sum may fail
                let overflow_possible = {
                    let ints: Vec<i128> = l.iter().filter_map(|v| if let Value::Int(i) = v { Some(*i as i128) } else { None }).collect();
                    let s: i128 = ints.iter().sum();
                    s > i64::MAX as i128 || s < i64::MIN as i128 || ints.iter().scan(0i128, |acc, x| { *acc += x; Some(*acc) }).any(|p| p > i64::MAX as i128 || p < i64::MIN as i128)
                };
                if !overflow_possible {
                    rep.violation(mk("aggregate_failed", m));
                } else {
                    rep.outcome("overflow_error");
                }
                return;
            }
            Err(e) => {
                rep.violation(mk(&format!("aggregate_{}", e.class()), e.msg().to_string()));
                return;
            }
        };
        // expected groups
        let mut groups: BTreeMap<CV, Vec<Value>> = BTreeMap::new();
        for (i, x) in l.iter().enumerate() {
            groups.entry(keys.map(|k| to_cv(&k[i])).unwrap_or(CV::Null)).or_default().push(x.clone());
        }
        if l.is_empty() {
            // global aggregation over no rows yields one row; grouped aggregation none (k is a grouping key here)
            if !got.is_empty() {
                rep.violation(mk("rows_for_empty_input", show_rows(&got)));
            }
            return;
        }
        if got.len() != groups.len() {
            rep.violation(mk("group_count", format!("{} rows for {} distinct keys: {}", got.len(), groups.len(), show_rows(&got))));
            return;
        }
        for row in &got {
            let Some(members) = groups.get(&row[0]) else {
                rep.violation(mk("unknown_group_key", format!("{}", row[0].show())));
                return;
            };
            let nonnull: Vec<&Value> = members.iter().filter(|v| !matches!(v, Value::Null)).collect();
            if row[1] != CV::Int(members.len() as i64) {
                rep.violation(mk("count_star", format!("count(*) = {} for {} rows", row[1].show(), members.len())));
            }
            if row[2] != CV::Int(nonnull.len() as i64) {
                rep.violation(mk("count", format!("count(x) = {} for {} non-null values", row[2].show(), nonnull.len())));
            }
            // sum
            let all_int = nonnull.iter().all(|v| matches!(v, Value::Int(_)));
            let exact_int: i128 = nonnull.iter().filter_map(|v| if let Value::Int(i) = v { Some(*i as i128) } else { None }).sum();
            let exact_f: f64 = nonnull.iter().map(|v| match v { Value::Int(i) => *i as f64, Value::Float(f) => *f, _ => 0.0 }).sum();
            let sum_ok = |cv: &CV, exact_int: i128, exact_f: f64, all_int: bool| -> bool {
                match cv {
                    CV::Int(s) => all_int && *s as i128 == exact_int,
                    CV::Float(b) => {
                        let f = f64::from_bits(*b);
                        let fits = exact_int >= i64::MIN as i128 && exact_int <= i64::MAX as i128;
                        (!all_int || !fits) && ((f - exact_f).abs() <= exact_f.abs() * 1e-9 + 1e-9 || (f - exact_int as f64).abs() <= (exact_int as f64).abs() * 1e-9 + 1.0)
                    }
                    _ => false,
                }
            };
            if !sum_ok(&row[3], exact_int, exact_f, all_int) {
                let class = if matches!(row[3], CV::Int(_)) && all_int { "sum_wraps_or_wrong" } else { "sum_wrong" };
                rep.violation(mk(class, format!("sum = {} for values {:?} (exact integer part {exact_int}, float sum {exact_f})", row[3].show(), members.iter().map(|v| to_cv(v).show()).collect::<Vec<_>>())));
            }
            // min / max with exact comparison
            let mut mn: Option<&Value> = None;
            let mut mx: Option<&Value> = None;
            for v in &nonnull {
                if mn.is_none_or(|m| num_cmp(v, m) == Some(std::cmp::Ordering::Less)) {
                    mn = Some(v);
                }
                if mx.is_none_or(|m| num_cmp(v, m) == Some(std::cmp::Ordering::Greater)) {
                    mx = Some(v);
                }
            }
            let want_mn = mn.map(|v| to_cv(v)).unwrap_or(CV::Null);
            let want_mx = mx.map(|v| to_cv(v)).unwrap_or(CV::Null);
            // ties between different representations of one number (0.0 / -0.0 / 0, 1 / 1.0): any of them is a correct minimum
            let same_number = |got: &CV, want: Option<&Value>| -> bool {
                let g = match got {
                    CV::Int(i) => Value::Int(*i),
                    CV::Float(b) => Value::Float(f64::from_bits(*b)),
                    _ => return false,
                };
                want.is_some_and(|w| num_cmp(&g, w) == Some(std::cmp::Ordering::Equal))
            };
            if row[4] != want_mn && !same_number(&row[4], mn) {
                rep.violation(mk("min", format!("min = {} expected {} for {:?}", row[4].show(), want_mn.show(), members.iter().map(|v| to_cv(v).show()).collect::<Vec<_>>())));
            }
            if row[5] != want_mx && !same_number(&row[5], mx) {
                rep.violation(mk("max", format!("max = {} expected {} for {:?}", row[5].show(), want_mx.show(), members.iter().map(|v| to_cv(v).show()).collect::<Vec<_>>())));
            }
            // avg
            match &row[6] {
                CV::Null if nonnull.is_empty() => {}
                CV::Float(b) if !nonnull.is_empty() => {
                    let floats_only: f64 = nonnull.iter().map(|v| if let Value::Float(f) = v { *f } else { 0.0 }).sum();
                    let want = (exact_int as f64 + floats_only) / nonnull.len() as f64;
                    let f = f64::from_bits(*b);
                    if (f - want).abs() > want.abs() * 1e-9 + 1e-9 {
                        rep.violation(mk("avg", format!("avg = {f} expected about {want}")));
                    }
                }
                CV::Int(i) if !nonnull.is_empty() && all_int && (*i as i128) * nonnull.len() as i128 == exact_int => {}
                other => rep.violation(mk("avg", format!("avg = {} for {} non-null values", other.show(), nonnull.len()))),
            }
            // collect
            let mut want_co: Vec<CV> = nonnull.iter().map(|v| to_cv(v)).collect();
            want_co.sort();
            let mut got_co = match &row[7] {
                CV::List(l) => l.clone(),
                _ => vec![CV::Other("not a list".into())],
            };
            got_co.sort();
            if got_co != want_co {
                rep.violation(mk("collect", format!("collect = {} expected multiset {:?}", row[7].show(), want_co.iter().map(|v| v.show()).collect::<Vec<_>>())));
            }
            // count(DISTINCT) by exact numeric equality classes
            let mut classes: Vec<&Value> = Vec::new();
            for v in &nonnull {
                // equal numbers of the SAME type are one value (0.0 and -0.0); whether 1 and 1.0 are one value for
                // DISTINCT is not judged (the engine keeps them apart; openCypher's equivalence would merge them)
                let same_type = |a: &Value, b: &Value| matches!((a, b), (Value::Int(_), Value::Int(_)) | (Value::Float(_), Value::Float(_)));
                if !classes.iter().any(|c| same_type(c, v) && num_cmp(c, v) == Some(std::cmp::Ordering::Equal)) {
                    classes.push(v);
                }
            }
            if row[8] != CV::Int(classes.len() as i64) {
                rep.violation(mk("count_distinct", format!("count(DISTINCT x) = {} expected {}", row[8].show(), classes.len())));
            }
            let d_int: i128 = classes.iter().filter_map(|v| if let Value::Int(i) = v { Some(*i as i128) } else { None }).sum();
            let d_f: f64 = classes.iter().map(|v| match v { Value::Int(i) => *i as f64, Value::Float(f) => *f, _ => 0.0 }).sum();
            if !sum_ok(&row[9], d_int, d_f, classes.iter().all(|v| matches!(v, Value::Int(_)))) {
                rep.violation(mk("sum_distinct", format!("sum(DISTINCT x) = {} (exact {d_int} / {d_f})", row[9].show())));
            }
        }
        rep.outcome("checked");
    };
    // numbers with several representations: 0.0 / -0.0 / 0 and 1 / 1.0 are ONE value for DISTINCT, min, max
    let eq_alpha: Vec<Value> = vec![Value::Float(0.0), Value::Float(-0.0), vint(0), vint(1), Value::Float(1.0), Value::Null];
    let eq_lists = all_lists(&eq_alpha, tier.pick(3usize, 4));
    eq_lists.par_iter().for_each(|l| {
        check_numeric(l, None);
        if l.len() == 2 {
            check_numeric(l, Some(&[vint(1), vint(1)]));
        }
    });
    lists.par_iter().for_each(|l| {
        check_numeric(l, None);
        if !l.is_empty() && l.len() <= tier.pick(2, 3) {
            for keys in all_lists(&keys_alpha, l.len()).into_iter().filter(|k| k.len() == l.len()) {
                check_numeric(l, Some(&keys));
            }
        }
    });
    // mixed-type lists: count / collect only (min / max across types is outside the uncontroversial fragment)
    let mixed = all_lists(&mixed_alpha, maxlen.min(3));
    mixed.par_iter().for_each(|l| {
        let q = "UNWIND $l AS x RETURN count(*) AS n, count(x) AS c, collect(x) AS co, count(DISTINCT x) AS cd";
        n.fetch_add(1, std::sync::atomic::Ordering::Relaxed);
        let desc = json!({"engine":"expr","query": q, "values": l.iter().map(|v| to_cv(v).show()).collect::<Vec<_>>()});
        match ev.rows(q, &[("l", Value::List(l.clone()))]) {
            Ok(rows) if rows.len() == 1 => {
                let nonnull: Vec<CV> = l.iter().filter(|v| !matches!(v, Value::Null)).map(to_cv).collect();
                let mut want = nonnull.clone();
                want.sort();
                let mut got = match &rows[0][2] {
                    CV::List(x) => x.clone(),
                    _ => vec![],
                };
                got.sort();
                let mut d = want.clone();
                d.dedup();
                if rows[0][0] != CV::Int(l.len() as i64) || rows[0][1] != CV::Int(nonnull.len() as i64) || got != want || rows[0][3] != CV::Int(d.len() as i64) {
                    rep.violation(Violation { class: "mixed_type_aggregate".into(), kinds: vec!["mixed".into()], replay: desc, detail: format!("got {} for {:?}", show_rows(&rows), l.iter().map(|v| to_cv(v).show()).collect::<Vec<_>>()) });
                }
            }
            other => rep.violation(Violation { class: "mixed_type_aggregate_failed".into(), kinds: vec!["mixed".into()], replay: desc, detail: format!("{other:?}") }),
        }
    });
    let total = n.load(std::sync::atomic::Ordering::Relaxed);
    rep.add_states(lists.len() as u64 + eq_lists.len() as u64 + mixed.len() as u64);
    rep.add_transitions(total);
    rep.add_traces(total);
    rep.add_evals(total);
    rep.add_nontrivial(total);
    rep.sample(json!({"values": ["9223372036854775807", "1"], "aggregate": "sum"}));
    rep.finish()
}

// ---------------------------------------------------------------------------------------------
// C20 ORDER BY sorts and SKIP/LIMIT slice it
// ---------------------------------------------------------------------------------------------

/// Reference order, defined only where it is uncontroversial: numbers by exact value, strings
/// byte-wise, booleans false < true, null last (ascending); across kinds only the "null last"
/// rule is used.  `None` = the reference has no opinion on this pair.
fn ref_order(a: &Value, b: &Value) -> Option<std::cmp::Ordering> {
    use std::cmp::Ordering::*;
    let date_like = |s: &str| s.chars().next().is_some_and(|c| c.is_ascii_digit());
    match (a, b) {
        (Value::Null, Value::Null) => Some(Equal),
        (Value::Null, _) => Some(Greater),
        (_, Value::Null) => Some(Less),
        (x, y) if is_num(x) && is_num(y) => {
            if is_nan(x) || is_nan(y) {
                None
            } else {
                num_cmp(x, y)
            }
        }
        (Value::String(x), Value::String(y)) => {
            if date_like(x) || date_like(y) {
                None
            } else {
                Some(x.as_bytes().cmp(y.as_bytes()))
            }
        }
        (Value::Bool(x), Value::Bool(y)) => Some(x.cmp(y)),
        _ => None,
    }
}

pub fn c20(tier: Tier) -> i32 {
    let rep = Report::new("C20", tier);
    rep.rule("all lists up to the stated length over a 30-value alphabet (large integers next to floats, signed zeros, infinities, NaN, null, booleans, plain and date-like strings, lists, maps) through `UNWIND $l AS x RETURN x ORDER BY x [DESC] [SKIP s] [LIMIT l]` for every s, l <= len+1; oracle O1: the output is a permutation of the input; O2: no adjacent pair is out of order according to a reference comparator that is only consulted where Cypher's order is uncontroversial (exact numeric comparison, byte-wise strings, false < true, null last); O3: the output sequence is the same for every permutation of the same multiset; O4: SKIP s LIMIT l equals positions s..s+l-1 of the unsliced output; O5: the same for RETURN DISTINCT x ORDER BY x (DISTINCT is applied before the slice); a panic of the sort is a violation; plus two-key ORDER BY over pairs; non-trivial = lists with at least two distinct values");
    let ev = Evaluator::new();
    let vals = alphabet_v();
    let alpha: Vec<Value> = vals.iter().map(|v| v.1.clone()).collect();
    let maxlen = tier.pick(3usize, 4);
    let n = std::sync::atomic::AtomicU64::new(0);
    // multisets (sorted index lists) so that permutations are grouped
    let mut multisets: Vec<Vec<usize>> = vec![];
    fn gen_ms(start: usize, n: usize, len: usize, cur: &mut Vec<usize>, out: &mut Vec<Vec<usize>>) {
        if cur.len() == len {
            out.push(cur.clone());
            return;
        }
        for i in start..n {
            cur.push(i);
            gen_ms(i, n, len, cur, out);
            cur.pop();
        }
    }
    for len in 1..=maxlen {
        gen_ms(0, alpha.len(), len, &mut vec![], &mut multisets);
    }
    let perms = |m: &[usize]| -> Vec<Vec<usize>> {
        let mut out = vec![];
        fn rec(rest: &mut Vec<usize>, cur: &mut Vec<usize>, out: &mut Vec<Vec<usize>>) {
            if rest.is_empty() {
                if !out.contains(cur) {
                    out.push(cur.clone());
                }
                return;
            }
            for i in 0..rest.len() {
                let x = rest.remove(i);
                cur.push(x);
                rec(rest, cur, out);
                cur.pop();
                rest.insert(i, x);
            }
        }
        rec(&mut m.to_vec(), &mut vec![], &mut out);
        out
    };
    multisets.par_iter().for_each(|m| {
        let names: Vec<String> = m.iter().map(|i| vals[*i].0.clone()).collect();
        let kinds_v: Vec<String> = {
            let mut k: Vec<String> = m.iter().map(|i| kind_of(&alpha[*i]).to_string()).collect();
            k.sort();
            k.dedup();
            k
        };
        for desc in [false, true] {
            let q = format!("UNWIND $l AS x RETURN x ORDER BY x{}", if desc { " DESC" } else { "" });
            let mut first: Option<Vec<CV>> = None;
            for p in perms(m) {
                n.fetch_add(1, std::sync::atomic::Ordering::Relaxed);
                let l: Vec<Value> = p.iter().map(|i| alpha[*i].clone()).collect();
                let replay = json!({"engine":"expr","query": q, "list": p.iter().map(|i| vals[*i].0.clone()).collect::<Vec<_>>()});
                let mk = |class: &str, detail: String| Violation { class: class.to_string(), kinds: kinds_v.clone(), replay: replay.clone(), detail };
                let rows = match ev.rows(&q, &[("l", Value::List(l.clone()))]) {
                    Ok(r) => r,
                    Err(e) => {
                        rep.violation(mk(&format!("order_by_{}", e.class()), e.msg().to_string()));
                        continue;
                    }
                };
                let got: Vec<CV> = rows.iter().map(|r| r[0].clone()).collect();
                // O1 permutation
                let mut a: Vec<CV> = got.clone();
                a.sort();
                let mut b: Vec<CV> = l.iter().map(to_cv).collect();
                b.sort();
                if a != b {
                    rep.violation(mk("not_a_permutation", format!("output {:?}", got.iter().map(|v| v.show()).collect::<Vec<_>>())));
                    continue;
                }
                // O2 adjacent pairs (map canonical values back to Values through the multiset)
                let back = |c: &CV| -> Value { m.iter().map(|i| &alpha[*i]).find(|v| to_cv(v) == *c).cloned().unwrap_or(Value::Null) };
                for w in got.windows(2) {
                    let (x, y) = (back(&w[0]), back(&w[1]));
                    if let Some(o) = ref_order(&x, &y) {
                        let bad = if desc { o == std::cmp::Ordering::Less } else { o == std::cmp::Ordering::Greater };
                        if bad {
                            rep.violation(mk("adjacent_pair_out_of_order", format!("{} before {} in {} order (input {names:?})", w[0].show(), w[1].show(), if desc { "DESC" } else { "ASC" })));
                        }
                    }
                }
                // O3 permutation invariance
                match &first {
                    None => first = Some(got.clone()),
                    Some(f) => {
                        // equal values (0.0 / -0.0, 1 / 1.0) may legitimately swap places
                        let same = f.len() == got.len() && f.iter().zip(&got).all(|(x, y)| x == y || ref_order(&back(x), &back(y)) == Some(std::cmp::Ordering::Equal));
                        if !same {
                            rep.violation(mk("order_depends_on_input_order", format!("{:?} vs {:?}", f.iter().map(|v| v.show()).collect::<Vec<_>>(), got.iter().map(|v| v.show()).collect::<Vec<_>>())));
                        }
                    }
                }
                // O4 slices (on the first permutation only)
                if first.as_ref() == Some(&got) && p == *m {
                    for s in 0..=l.len() + 1 {
                        for lim in 0..=l.len() + 1 {
                            n.fetch_add(1, std::sync::atomic::Ordering::Relaxed);
                            let qs = format!("{q} SKIP {s} LIMIT {lim}");
                            match ev.rows(&qs, &[("l", Value::List(l.clone()))]) {
                                Ok(r) => {
                                    let g: Vec<CV> = r.iter().map(|x| x[0].clone()).collect();
                                    let want: Vec<CV> = got.iter().skip(s).take(lim).cloned().collect();
                                    if g != want {
                                        rep.violation(Violation { class: "slice_mismatch".into(), kinds: kinds_v.clone(), replay: json!({"engine":"expr","query": qs, "list": names}), detail: format!("got {:?} want {:?}", g.iter().map(|v| v.show()).collect::<Vec<_>>(), want.iter().map(|v| v.show()).collect::<Vec<_>>()) });
                                    }
                                }
                                Err(e) => rep.violation(Violation { class: format!("slice_{}", e.class()), kinds: kinds_v.clone(), replay: json!({"engine":"expr","query": qs, "list": names}), detail: e.msg().to_string() }),
                            }
                        }
                    }
                    // O5 DISTINCT is applied before ORDER BY / SKIP / LIMIT: slices of the distinct output
                    let qd = format!("UNWIND $l AS x RETURN DISTINCT x ORDER BY x{}", if desc { " DESC" } else { "" });
                    n.fetch_add(1, std::sync::atomic::Ordering::Relaxed);
                    if let Ok(dr) = ev.rows(&qd, &[("l", Value::List(l.clone()))]) {
                        let dgot: Vec<CV> = dr.iter().map(|x| x[0].clone()).collect();
                        // every input value is represented, nothing is invented
                        let mut dset = dgot.clone();
                        dset.sort();
                        dset.dedup();
                        if dset.len() != dgot.len() || dgot.iter().any(|c| !b.contains(c)) || dgot.is_empty() != l.is_empty() {
                            rep.violation(Violation { class: "distinct_output_wrong".into(), kinds: kinds_v.clone(), replay: json!({"engine":"expr","query": qd, "list": names}), detail: format!("{:?}", dgot.iter().map(|v| v.show()).collect::<Vec<_>>()) });
                        }
                        for s in 0..=dgot.len() {
                            for lim in 0..=dgot.len() + 1 {
                                n.fetch_add(1, std::sync::atomic::Ordering::Relaxed);
                                let qs = format!("{qd} SKIP {s} LIMIT {lim}");
                                match ev.rows(&qs, &[("l", Value::List(l.clone()))]) {
                                    Ok(r) => {
                                        let g: Vec<CV> = r.iter().map(|x| x[0].clone()).collect();
                                        let want: Vec<CV> = dgot.iter().skip(s).take(lim).cloned().collect();
                                        if g != want {
                                            rep.violation(Violation { class: "distinct_slice_mismatch".into(), kinds: kinds_v.clone(), replay: json!({"engine":"expr","query": qs, "list": names}), detail: format!("got {:?} want {:?} (positions {s}..{} of the unsliced DISTINCT output)", g.iter().map(|v| v.show()).collect::<Vec<_>>(), want.iter().map(|v| v.show()).collect::<Vec<_>>(), s + lim) });
                                        }
                                    }
                                    Err(e) => rep.violation(Violation { class: format!("distinct_slice_{}", e.class()), kinds: kinds_v.clone(), replay: json!({"engine":"expr","query": qs, "list": names}), detail: e.msg().to_string() }),
                                }
                            }
                        }
                    }
                }
            }
        }
        let distinct = {
            let mut d = m.clone();
            d.dedup();
            d.len()
        };
        if distinct >= 2 {
            rep.add_nontrivial(1);
        }
        rep.outcome(&format!("sorted:{}", kinds_v.join("+")));
        rep.add_states(1);
    });
    // two keys: pairs [a,b], ORDER BY a ASC, b DESC over the numeric / string sub-alphabet
    // (1 and 1.0, 0.0 and -0.0 tie on the first key although they are represented differently: the second key must still decide)
    let sub: Vec<Value> = vec![vint(1), Value::Float(1.0), vint(2), Value::Float(1.5), Value::Float(0.0), Value::Float(-0.0), Value::Null, Value::String("a".into()), Value::String("b".into())];
    let pairs_fwd: Vec<Value> = sub.iter().flat_map(|a| sub.iter().map(move |b| Value::List(vec![a.clone(), b.clone()]))).collect();
    let mut pairs_rev = pairs_fwd.clone();
    pairs_rev.reverse();
    for pairs in [pairs_fwd, pairs_rev] {
        let q = "UNWIND $l AS p RETURN p[0] AS a, p[1] AS b ORDER BY a, b DESC";
        n.fetch_add(1, std::sync::atomic::Ordering::Relaxed);
        match ev.rows(q, &[("l", Value::List(pairs.clone()))]) {
            Ok(rows) => {
                if rows.len() != pairs.len() {
                    rep.violation(Violation { class: "two_keys:not_a_permutation".into(), kinds: vec!["two_keys".into()], replay: json!({"engine":"expr","query": q}), detail: format!("{} rows for {} inputs", rows.len(), pairs.len()) });
                }
                let back = |c: &CV| -> Value { sub.iter().find(|v| to_cv(v) == *c).cloned().unwrap_or(Value::Null) };
                for w in rows.windows(2) {
                    let (a0, a1) = (back(&w[0][0]), back(&w[1][0]));
                    match ref_order(&a0, &a1) {
                        Some(std::cmp::Ordering::Greater) => rep.violation(Violation { class: "two_keys:first_key_out_of_order".into(), kinds: vec!["two_keys".into()], replay: json!({"engine":"expr","query": q}), detail: format!("{} before {}", w[0][0].show(), w[1][0].show()) }),
                        Some(std::cmp::Ordering::Equal) => {
                            let (b0, b1) = (back(&w[0][1]), back(&w[1][1]));
                            if ref_order(&b0, &b1) == Some(std::cmp::Ordering::Less) {
                                rep.violation(Violation { class: "two_keys:second_key_desc_out_of_order".into(), kinds: vec!["two_keys".into()], replay: json!({"engine":"expr","query": q}), detail: format!("({}, {}) before ({}, {})", w[0][0].show(), w[0][1].show(), w[1][0].show(), w[1][1].show()) });
                            }
                        }
                        _ => {}
                    }
                }
            }
            Err(e) => rep.violation(Violation { class: format!("two_keys:{}", e.class()), kinds: vec!["two_keys".into()], replay: json!({"engine":"expr","query": q}), detail: e.msg().to_string() }),
        }
    }
    let total = n.load(std::sync::atomic::Ordering::Relaxed);
    rep.add_transitions(total);
    rep.add_traces(total);
    rep.add_evals(total);
    rep.sample(json!({"list": ["int:9007199254740993", "float:2^53", "int:9007199254740992"], "query": "UNWIND $l AS x RETURN x ORDER BY x"}));
    rep.assume("cross-type positions (other than null last) and the order among date-like strings are not judged by the reference comparator; they are only required to be independent of the input permutation");
    rep.finish()
}
