//! Shared plumbing: tiers, scratch directories, evidence files, violations, known findings.
use serde_json::{Value, json};
use std::collections::BTreeMap;
use std::path::{Path, PathBuf};
use std::sync::Mutex;
use std::sync::atomic::{AtomicU64, Ordering};
use std::time::Instant;

#[derive(Clone, Copy, PartialEq, Eq, Debug)]
pub enum Tier {
    Quick,
    Thorough,
}

impl Tier {
    pub fn name(self) -> &'static str {
        match self {
            Tier::Quick => "quick",
            Tier::Thorough => "thorough",
        }
    }
    pub fn pick<T>(self, q: T, t: T) -> T {
        match self {
            Tier::Quick => q,
            Tier::Thorough => t,
        }
    }
}

pub fn verif_root() -> PathBuf {
    std::env::var("VERIF_ROOT")
        .map(PathBuf::from)
        .unwrap_or_else(|_| PathBuf::from("/verif"))
}

static SCRATCH_SEQ: AtomicU64 = AtomicU64::new(0);

pub fn scratch_base() -> PathBuf {
    let base = if Path::new("/dev/shm").is_dir() {
        PathBuf::from("/dev/shm")
    } else {
        std::env::temp_dir()
    };
    base.join(format!("nvverif.{}", std::process::id()))
}

/// A fresh empty scratch directory (removed by `cleanup_scratch` at exit or by the caller).
pub fn scratch_dir(tag: &str) -> PathBuf {
    let n = SCRATCH_SEQ.fetch_add(1, Ordering::Relaxed);
    let d = scratch_base().join(format!("{tag}.{n}"));
    let _ = std::fs::remove_dir_all(&d);
    std::fs::create_dir_all(&d).expect("create scratch dir");
    d
}

pub fn cleanup_scratch() {
    let _ = std::fs::remove_dir_all(scratch_base());
}

pub struct ScratchGuard(pub PathBuf);
impl Drop for ScratchGuard {
    fn drop(&mut self) {
        let _ = std::fs::remove_dir_all(&self.0);
    }
}

/// One failing case.
#[derive(Clone, Debug)]
pub struct Violation {
    /// Short class of what went wrong (oracle-specific, stable string).
    pub class: String,
    /// Abstract trigger: the ordered list of step kinds of the failing case.
    pub kinds: Vec<String>,
    /// Everything needed to replay: engine-specific JSON.
    pub replay: Value,
    /// Human-readable detail (expected / observed).
    pub detail: String,
}

#[derive(Clone, Debug)]
pub struct KnownFinding {
    pub property: String,
    pub class: String,
    /// Step kinds that must occur, in this order, as a subsequence of the failing case.
    pub requires: Vec<String>,
    /// Step kinds that must NOT occur in the failing case (keeps the finding specific).
    pub forbids: Vec<String>,
    pub what: String,
}

pub fn load_known_findings(property: &str) -> Vec<KnownFinding> {
    let p = verif_root().join("known_findings.json");
    let Ok(txt) = std::fs::read_to_string(&p) else {
        return Vec::new();
    };
    let v: Value = serde_json::from_str(&txt).expect("known_findings.json parses");
    let mut out = Vec::new();
    for f in v["findings"].as_array().cloned().unwrap_or_default() {
        if f["property"].as_str() != Some(property) {
            continue;
        }
        let strs = |k: &str| -> Vec<String> {
            f[k].as_array()
                .map(|a| a.iter().filter_map(|x| x.as_str().map(String::from)).collect())
                .unwrap_or_default()
        };
        out.push(KnownFinding {
            property: property.to_string(),
            class: f["class"].as_str().unwrap_or("").to_string(),
            requires: strs("requires"),
            forbids: strs("forbids"),
            what: f["what"].as_str().unwrap_or("").to_string(),
        });
    }
    out
}

/// `*` in a pattern matches any run of characters.
pub fn glob_match(pat: &str, s: &str) -> bool {
    if !pat.contains('*') {
        return pat == s;
    }
    let parts: Vec<&str> = pat.split('*').collect();
    let mut pos = 0usize;
    for (i, part) in parts.iter().enumerate() {
        if part.is_empty() {
            continue;
        }
        if i == 0 {
            if !s.starts_with(part) {
                return false;
            }
            pos = part.len();
        } else if i == parts.len() - 1 {
            return s.len() >= pos + part.len() && s[pos..].ends_with(part);
        } else {
            match s[pos..].find(part) {
                Some(j) => pos += j + part.len(),
                None => return false,
            }
        }
    }
    true
}

fn is_subsequence(needle: &[String], hay: &[String]) -> bool {
    let mut it = hay.iter();
    needle.iter().all(|n| it.any(|h| glob_match(n, h)))
}

impl KnownFinding {
    pub fn matches(&self, v: &Violation) -> bool {
        glob_match(&self.class, &v.class)
            && is_subsequence(&self.requires, &v.kinds)
            && !self.forbids.iter().any(|f| v.kinds.iter().any(|k| glob_match(f, k)))
    }
}

/// Collects what one run of one check covered and found.
pub struct Report {
    pub property: String,
    pub tier: Tier,
    pub level: &'static str,
    start: Instant,
    pub states: AtomicU64,
    pub transitions: AtomicU64,
    pub traces: AtomicU64,
    pub evaluations: AtomicU64,
    pub nontrivial: AtomicU64,
    pub violations: Mutex<Vec<Violation>>,
    pub samples: Mutex<Vec<Value>>,
    pub extra: Mutex<BTreeMap<String, Value>>,
    pub assumptions: Mutex<Vec<String>>,
    pub outcomes: Mutex<BTreeMap<String, u64>>,
    pub exhaustive: Mutex<bool>,
    pub rule: Mutex<String>,
}

impl Report {
    pub fn new(property: &str, tier: Tier) -> Self {
        Report {
            property: property.to_string(),
            tier,
            level: "model_checking",
            start: Instant::now(),
            states: AtomicU64::new(0),
            transitions: AtomicU64::new(0),
            traces: AtomicU64::new(0),
            evaluations: AtomicU64::new(0),
            nontrivial: AtomicU64::new(0),
            violations: Mutex::new(Vec::new()),
            samples: Mutex::new(Vec::new()),
            extra: Mutex::new(BTreeMap::new()),
            assumptions: Mutex::new(Vec::new()),
            outcomes: Mutex::new(BTreeMap::new()),
            exhaustive: Mutex::new(true),
            rule: Mutex::new(String::new()),
        }
    }
    pub fn elapsed(&self) -> f64 {
        self.start.elapsed().as_secs_f64()
    }
    pub fn add_states(&self, n: u64) {
        self.states.fetch_add(n, Ordering::Relaxed);
    }
    pub fn add_transitions(&self, n: u64) {
        self.transitions.fetch_add(n, Ordering::Relaxed);
    }
    pub fn add_traces(&self, n: u64) {
        self.traces.fetch_add(n, Ordering::Relaxed);
    }
    pub fn add_evals(&self, n: u64) {
        self.evaluations.fetch_add(n, Ordering::Relaxed);
    }
    pub fn add_nontrivial(&self, n: u64) {
        self.nontrivial.fetch_add(n, Ordering::Relaxed);
    }
    pub fn outcome(&self, k: &str) {
        *self.outcomes.lock().unwrap().entry(k.to_string()).or_insert(0) += 1;
    }
    pub fn sample(&self, v: Value) {
        let mut s = self.samples.lock().unwrap();
        if s.len() < 6 {
            s.push(v);
        }
    }
    pub fn set(&self, k: &str, v: Value) {
        self.extra.lock().unwrap().insert(k.to_string(), v);
    }
    pub fn bump(&self, k: &str, n: u64) {
        let mut e = self.extra.lock().unwrap();
        let cur = e.get(k).and_then(|v| v.as_u64()).unwrap_or(0);
        e.insert(k.to_string(), json!(cur + n));
    }
    pub fn assume(&self, s: &str) {
        self.assumptions.lock().unwrap().push(s.to_string());
    }
    pub fn rule(&self, s: &str) {
        *self.rule.lock().unwrap() = s.to_string();
    }
    pub fn not_exhaustive(&self, why: &str) {
        *self.exhaustive.lock().unwrap() = false;
        self.set("cap_hit", json!(why));
    }
    pub fn violation(&self, v: Violation) {
        let mut vs = self.violations.lock().unwrap();
        if vs.len() < 100_000 {
            vs.push(v);
        }
    }
    pub fn violation_count(&self) -> usize {
        self.violations.lock().unwrap().len()
    }

    /// Writes the evidence file, prints KNOWN-FINDING / VIOLATION lines, returns the exit code.
    pub fn finish(&self) -> i32 {
        let root = verif_root();
        let known = load_known_findings(&self.property);
        let vs = self.violations.lock().unwrap().clone();
        // replay mode (`./check <ID> --replay <artefact>`): the check is deterministic and exhaustive, so the
        // artefact is replayed by re-exploring and looking for the violation with the same identity
        if let Ok(target) = std::env::var("VERIF_REPLAY_ARTEFACT") {
            let want: Option<serde_json::Value> = std::fs::read_to_string(&target).ok().and_then(|t| serde_json::from_str(&t).ok());
            let Some(want) = want else {
                eprintln!("MACHINERY: cannot read replay artefact {target}");
                return 2;
            };
            let same = |v: &Violation| json!(v.class) == want["class"] && json!(v.kinds) == want["kinds"] && v.replay == want["replay"];
            return match vs.iter().find(|v| same(v)) {
                Some(v) => {
                    println!("REPLAY: reproduced on the current tree");
                    println!("VIOLATION property={} replay={}", self.property, target);
                    println!("  class={} trigger={} :: {}", v.class, v.kinds.join(","), truncate(&v.detail, 600));
                    1
                }
                None => {
                    println!("REPLAY: the violation of {target} does not occur on the current tree ({} other violating cases in this run)", vs.len());
                    0
                }
            };
        }
        let mut matched: BTreeMap<usize, (u64, Violation)> = BTreeMap::new();
        let mut unmatched: Vec<Violation> = Vec::new();
        // Group unmatched by (class, kinds) so the output stays readable.
        let mut seen_unmatched: BTreeMap<(String, Vec<String>), u64> = BTreeMap::new();
        for v in &vs {
            if let Some((i, _)) = known.iter().enumerate().find(|(_, k)| k.matches(v)) {
                matched.entry(i).or_insert((0, v.clone())).0 += 1;
            } else {
                let key = (v.class.clone(), v.kinds.clone());
                let c = seen_unmatched.entry(key).or_insert(0);
                if *c == 0 {
                    unmatched.push(v.clone());
                }
                *c += 1;
            }
        }
        for (i, (n, v)) in &matched {
            println!(
                "KNOWN-FINDING: property={} {} [class={} cases={} e.g. {}]",
                self.property,
                known[*i].what,
                known[*i].class,
                n,
                v.kinds.join(",")
            );
        }
        if std::env::var("VERIF_CLASSES").is_ok() {
            let mut by_class: BTreeMap<String, (u64, Violation)> = BTreeMap::new();
            for v in &vs {
                let e = by_class.entry(v.class.clone()).or_insert((0, v.clone()));
                e.0 += 1;
                if v.kinds.len() < e.1.kinds.len() {
                    e.1 = v.clone();
                }
            }
            if std::env::var("VERIF_CLASSES").as_deref() == Ok("all") {
                // one line per distinct (class, trigger) shape, shortest first
                let mut shapes: BTreeMap<(String, Vec<String>), &Violation> = BTreeMap::new();
                for v in &vs {
                    shapes.entry((v.class.clone(), v.kinds.clone())).or_insert(v);
                }
                let mut list: Vec<_> = shapes.into_iter().collect();
                list.sort_by_key(|((c, k), _)| (c.clone(), k.len()));
                for ((c, k), v) in list.iter().take(200) {
                    println!("SHAPE {c} :: {} :: {}", k.join(","), truncate(&v.detail, 160));
                }
            }
            for (c, (n, v)) in &by_class {
                let k = known.iter().any(|k| k.matches(v));
                println!("CLASS {c} cases={n} known={k} shortest={} :: {}", v.kinds.join(","), truncate(&v.detail, 200));
            }
        }
        let mut exit = 0;
        let replay_dir = root.join("replays");
        let _ = std::fs::create_dir_all(&replay_dir);
        for (n, v) in unmatched.iter().enumerate() {
            if n >= 5 {
                break;
            }
            let name = format!(
                "{}-{}-{:016x}.json",
                self.property,
                self.tier.name(),
                fxhash(&format!("{}{:?}{}", v.class, v.kinds, v.replay))
            );
            let path = replay_dir.join(name);
            let body = json!({
                "property": self.property, "class": v.class, "kinds": v.kinds,
                "replay": v.replay, "detail": v.detail,
            });
            let _ = std::fs::write(&path, serde_json::to_string_pretty(&body).unwrap());
            println!("VIOLATION property={} replay={}", self.property, path.display());
            println!("  class={} trigger={} :: {}", v.class, v.kinds.join(","), truncate(&v.detail, 600));
            exit = 1;
        }
        if unmatched.len() > 5 {
            println!("  ... and {} more distinct unmatched violation shapes", unmatched.len() - 5);
        }

        let mut cov = serde_json::Map::new();
        let states = self.states.load(Ordering::Relaxed);
        let transitions = self.transitions.load(Ordering::Relaxed);
        cov.insert("states".into(), json!(states.max(1)));
        cov.insert("transitions".into(), json!(transitions.max(1)));
        cov.insert("traces_validated_against_impl".into(), json!(self.traces.load(Ordering::Relaxed)));
        cov.insert("evaluations".into(), json!(self.evaluations.load(Ordering::Relaxed).max(1)));
        cov.insert("distinct_nontrivial".into(), json!(self.nontrivial.load(Ordering::Relaxed)));
        cov.insert("rule".into(), json!(self.rule.lock().unwrap().clone()));
        let mut samples = self.samples.lock().unwrap().clone();
        if samples.is_empty() {
            samples.push(json!("no sample recorded"));
        }
        cov.insert("samples".into(), Value::Array(samples));
        cov.insert("exhaustive".into(), json!(*self.exhaustive.lock().unwrap()));
        let outcomes = self.outcomes.lock().unwrap().clone();
        cov.insert("distinct_outcomes".into(), json!(outcomes.len()));
        cov.insert("outcomes".into(), json!(outcomes));
        cov.insert("violating_cases_total".into(), json!(vs.len()));
        cov.insert(
            "known_findings_matched".into(),
            json!(matched.iter().map(|(i, (n, _))| json!({"what": known[*i].what, "cases": n})).collect::<Vec<_>>()),
        );
        cov.insert("unmatched_violation_shapes".into(), json!(unmatched.len()));
        for (k, v) in self.extra.lock().unwrap().iter() {
            cov.insert(k.clone(), v.clone());
        }
        let ev = json!({
            "property_id": self.property,
            "tier": self.tier.name(),
            "seed": std::env::var("VERIF_SEED").ok().and_then(|s| s.parse::<i64>().ok()).unwrap_or(0),
            "level": self.level,
            "coverage": Value::Object(cov),
            "assumptions": self.assumptions.lock().unwrap().clone(),
            "wall_s": self.elapsed(),
            "violations": unmatched.len(),
        });
        let evdir = root.join("evidence");
        let _ = std::fs::create_dir_all(&evdir);
        let evpath = evdir.join(format!("{}.json", self.property));
        std::fs::write(&evpath, serde_json::to_string_pretty(&ev).unwrap()).expect("write evidence");
        println!(
            "{} {}: states={} transitions={} traces={} outcomes={} violating_cases={} known_matched={} unmatched_shapes={} wall={:.1}s",
            self.property,
            self.tier.name(),
            states,
            transitions,
            self.traces.load(Ordering::Relaxed),
            outcomes.len(),
            vs.len(),
            matched.len(),
            unmatched.len(),
            self.elapsed()
        );
        exit
    }
}

pub fn truncate(s: &str, n: usize) -> String {
    if s.len() <= n {
        s.to_string()
    } else {
        let mut end = n;
        while !s.is_char_boundary(end) {
            end -= 1;
        }
        format!("{}…", &s[..end])
    }
}

pub fn fxhash(s: &str) -> u64 {
    let mut h: u64 = 0xcbf29ce484222325;
    for b in s.bytes() {
        h ^= b as u64;
        h = h.wrapping_mul(0x100000001b3);
    }
    h
}

/// Runs `f`, converting a panic into an `Err` with the panic message and location.
pub fn catch<T>(f: impl FnOnce() -> T) -> Result<T, String> {
    match std::panic::catch_unwind(std::panic::AssertUnwindSafe(f)) {
        Ok(v) => Ok(v),
        Err(e) => {
            let msg = if let Some(s) = e.downcast_ref::<&str>() {
                s.to_string()
            } else if let Some(s) = e.downcast_ref::<String>() {
                s.clone()
            } else {
                "panic".to_string()
            };
            let loc = LAST_PANIC_LOC.with(|c| c.borrow().clone());
            Err(format!("PANIC@{loc}: {}", truncate(&msg, 160)))
        }
    }
}

thread_local! {
    pub static LAST_PANIC_LOC: std::cell::RefCell<String> = const { std::cell::RefCell::new(String::new()) };
}

/// Quiet panic hook that remembers the location for `catch`.
pub fn install_panic_hook() {
    std::panic::set_hook(Box::new(|info| {
        let loc = info
            .location()
            .map(|l| {
                let f = l.file();
                let short = f.rsplit('/').next().unwrap_or(f);
                format!("{}:{}", short, l.line())
            })
            .unwrap_or_default();
        LAST_PANIC_LOC.with(|c| *c.borrow_mut() = loc);
        if std::env::var("VERIF_SHOW_PANICS").is_ok() {
            eprintln!("panic: {info}");
        }
    }));
}
