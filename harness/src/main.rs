mod common;
mod crash;
mod rt;
mod seq;
mod sut;

use common::*;

fn usage() -> ! {
    eprintln!("usage: verif <PROPERTY-ID> [--tier quick|thorough] [--replay <file>]");
    std::process::exit(2)
}

fn main() {
    let args: Vec<String> = std::env::args().collect();
    if args.len() < 2 {
        usage();
    }
    let id = args[1].to_uppercase();
    let mut tier = match std::env::var("VERIF_TIER").ok().as_deref() {
        Some("thorough") => Tier::Thorough,
        _ => Tier::Quick,
    };
    let mut replay: Option<String> = None;
    let mut i = 2;
    while i < args.len() {
        match args[i].as_str() {
            "--tier" => {
                i += 1;
                tier = match args.get(i).map(|s| s.as_str()) {
                    Some("quick") => Tier::Quick,
                    Some("thorough") => Tier::Thorough,
                    _ => usage(),
                };
            }
            "--replay" => {
                i += 1;
                replay = args.get(i).cloned();
            }
            _ => usage(),
        }
        i += 1;
    }
    install_panic_hook();
    let _ = replay;
    let code = match id.as_str() {
        "C01" => crash::c01(tier),
        "C02" => crash::c02(tier),
        "C08" => crash::c08(tier),
        "C17" => crash::c17(tier),
        "C04" => seq::c04(tier),
        "C05" => seq::c05(tier),
        "C06" => seq::c06(tier),
        "C07" => seq::c07(tier),
        "C28" => seq::c28(tier),
        _ => {
            eprintln!("unknown property {id}");
            2
        }
    };
    cleanup_scratch();
    std::process::exit(code);
}
