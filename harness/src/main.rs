mod bulk;
mod capi;
mod capichk;
mod child;
mod common;
mod comp;
mod crash;
mod cyref;
mod multi;
mod qchk;
mod qclock;
mod qcrash;
mod qexpr;
mod qlimit;
mod qry;
mod qupd;
mod rt;
mod sched;
mod schk;
mod seq;
mod sut;

use common::*;

fn usage() -> ! {
    eprintln!("usage: verif <PROPERTY-ID> [--tier quick|thorough] [--replay <file>]");
    std::process::exit(2)
}

fn main() {
    let args: Vec<String> = std::env::args().collect();
    if args.len() < 2 {
        usage();
    }
    let id = args[1].to_uppercase();
    let mut tier = match std::env::var("VERIF_TIER").ok().as_deref() {
        Some("thorough") => Tier::Thorough,
        _ => Tier::Quick,
    };
    let mut replay: Option<String> = None;
    let mut i = 2;
    if args.get(2).map(|s| s.as_str()) == Some("--child") {
        install_panic_hook();
        let fam = args.get(3).cloned().unwrap_or_default();
        let start: u64 = args.get(4).and_then(|s| s.parse().ok()).unwrap_or(0);
        let end: u64 = args.get(5).and_then(|s| s.parse().ok()).unwrap_or(0);
        let code = match id.as_str() {
            "C25" => comp::c25_child(&fam, start, end),
            "C16" => qcrash::c16_child(&fam, start, end),
            "C10" => multi::c10_child(args.get(4).map(|s| s.as_str()).unwrap_or("")),
            _ => 2,
        };
        std::process::exit(code);
    }
    while i < args.len() {
        match args[i].as_str() {
            "--tier" => {
                i += 1;
                tier = match args.get(i).map(|s| s.as_str()) {
                    Some("quick") => Tier::Quick,
                    Some("thorough") => Tier::Thorough,
                    _ => usage(),
                };
            }
            "--replay" => {
                i += 1;
                replay = args.get(i).cloned();
            }
            _ => usage(),
        }
        i += 1;
    }
    install_panic_hook();
    if let Some(path) = &replay {
        // artefact names are <ID>-<tier>-<hash>.json: replay in the tier that produced it
        let name = std::path::Path::new(path).file_name().map(|n| n.to_string_lossy().to_string()).unwrap_or_default();
        if name.contains("-thorough-") {
            tier = Tier::Thorough;
        } else if name.contains("-quick-") {
            tier = Tier::Quick;
        }
        unsafe { std::env::set_var("VERIF_REPLAY_ARTEFACT", path) };
    }
    let code = match id.as_str() {
        "C01" => crash::c01(tier),
        "C02" => crash::c02(tier),
        "C08" => crash::c08(tier),
        "C17" => crash::c17(tier),
        "C03" => schk::c03(tier),
        "C09" => schk::c09(tier),
        "C29" => schk::c29(tier),
        "C35" => schk::c35(tier),
        "C11" => qchk::c11(tier),
        "C12" => qupd::c12(tier),
        "C13" => qupd::c13(tier),
        "C14" => qupd::c14(tier),
        "C24" => qupd::c24(tier),
        "C15" => qchk::c15(tier),
        "C16" => qcrash::c16(tier),
        "C30" => bulk::c30(tier),
        "C32" => qclock::c32(tier),
        "C33" => qlimit::c33(tier),
        "C34" => capichk::c34(tier),
        "C19" => qchk::c19(tier),
        "C20" => qexpr::c20(tier),
        "C21" => qexpr::c21(tier),
        "C22" => qexpr::c22(tier),
        "C23" => qexpr::c23(tier),
        "C10" => multi::c10(tier),
        "C04" => seq::c04(tier),
        "C05" => seq::c05(tier),
        "C06" => seq::c06(tier),
        "C07" => seq::c07(tier),
        "C18" => seq::c18(tier),
        "C25" => comp::c25(tier),
        "C26" => comp::c26(tier),
        "C27" => comp::c27(tier),
        "C31" => comp::c31(tier),
        "C28" => seq::c28(tier),
        _ => {
            eprintln!("unknown property {id}");
            2
        }
    };
    cleanup_scratch();
    std::process::exit(code);
}
