//! E-CRASH: crash-point / power-loss / I/O-fault / log-tail enumeration over a recorded I/O history.
use crate::common::*;
use crate::rt::*;
use crate::sut::*;
use nervusdb_storage::verif::IoOp;
use rayon::prelude::*;
use serde_json::{Value, json};
use std::collections::{BTreeMap, BTreeSet};
use std::path::Path;
use std::sync::Arc;

pub const CTR: u64 = 100;

fn ctr_spec() -> DumpSpec {
    DumpSpec { prop_keys: vec!["k".into()], rel_types: vec!["R".into()], index_probes: vec![("A".into(), "k".into(), nervusdb::PropertyValue::Int(1))], max_iid_probe: 6 }
}

/// The crash alphabet.  Every write transaction also sets `ctr.k = <its 1-based position>`.
pub fn sigma_crash() -> Vec<Op> {
    vec![
        Op::Tx(vec![Op::CreateNode { e: 1, labels: vec!["A"] }, Op::SetNodeProp { e: 1, k: "k", v: Val::I(1) }]),
        Op::Tx(vec![Op::CreateNode { e: 2, labels: vec!["A", "B"] }]),
        Op::Tx(vec![Op::CreateEdge { s: 1, t: "R", d: 1 }, Op::SetEdgeProp { s: 1, t: "R", d: 1, k: "k", v: Val::I(1) }]),
        Op::Tx(vec![Op::SetNodeProp { e: 1, k: "k", v: Val::I(2) }]),
        Op::Tx(vec![Op::DeleteEdge { s: 1, t: "R", d: 1 }]),
        Op::Tx(vec![Op::DeleteNode { e: 2 }]),
        Op::Tx(vec![Op::AddLabel { e: 1, l: "B" }]),
        Op::Compact,
        Op::CreateIndex { l: "A", k: "k" },
        Op::CloseOpen,
        Op::DropOpen,
    ]
}

/// Adds the counter update to a transaction at history position `pos` (1-based).
fn with_counter(op: &Op, pos: usize) -> Op {
    match op {
        Op::Tx(ops) => {
            let mut v = ops.clone();
            if pos == 1 {
                // the very first transaction also creates the counter node
                v.insert(0, Op::CreateNode { e: CTR, labels: vec!["Ctr"] });
            }
            v.push(Op::SetNodeProp { e: CTR, k: "k", v: Val::I(pos as i64) });
            Op::Tx(v)
        }
        other => other.clone(),
    }
}

/// Histories: first op is always a transaction (it creates the counter node).
pub fn crash_histories(max_len: usize, listed: bool) -> Vec<Vec<Op>> {
    let sigma = sigma_crash();
    let mut out: Vec<Vec<Op>> = Vec::new();
    let mut frontier: Vec<(Vec<Op>, GraphModel)> = vec![(Vec::new(), GraphModel::default())];
    for _ in 0..max_len {
        let mut next = Vec::new();
        for (h, m) in &frontier {
            for op in &sigma {
                if h.is_empty() && !matches!(op, Op::Tx(_)) {
                    continue;
                }
                // symmetric: node 2 only after node 1
                let op2 = with_counter(op, h.len() + 1);
                if !m.enabled(&op2) {
                    continue;
                }
                if let Op::Tx(v) = op {
                    if matches!(v[0], Op::CreateNode { e: 2, .. }) && !m.nodes.contains_key(&1) {
                        continue;
                    }
                }
                let mut hh = h.clone();
                hh.push(op2.clone());
                let mut mm = m.clone();
                mm.apply(&op2);
                out.push(hh.clone());
                next.push((hh, mm));
            }
        }
        frontier = next;
    }
    if listed {
        // hand-listed longer histories: maintenance operations around transactions
        let s = &sigma;
        let t = |i: usize| s[i].clone();
        let lists: Vec<Vec<Op>> = vec![
            vec![t(0), t(2), Op::Compact, t(3)],
            vec![t(0), t(2), Op::Compact, t(4), Op::Compact],
            vec![t(0), Op::Compact, Op::CloseOpen, t(3)],
            vec![t(0), t(1), Op::Compact, t(5)],
            vec![t(0), Op::CreateIndex { l: "A", k: "k" }, t(3), Op::Compact],
            vec![t(0), Op::CloseOpen, t(3), Op::CloseOpen],
            vec![t(0), t(6), Op::Compact, Op::CloseOpen],
            vec![t(0), t(2), Op::DropOpen, t(4)],
            vec![t(0), t(3), Op::Compact, t(3)],
            // a node deletion that is still in the runs when the compaction (and the crash) comes
            vec![t(0), t(1), t(5), Op::Compact],
            vec![t(0), t(1), t(5), Op::Compact, t(3)],
            vec![t(0), t(2), t(1), t(5), Op::Compact, Op::CloseOpen],
        ];
        for l in lists {
            let mut m = GraphModel::default();
            let mut hh = Vec::new();
            let mut ok = true;
            for (i, op) in l.iter().enumerate() {
                let op2 = with_counter(op, i + 1);
                if !m.enabled(&op2) {
                    ok = false;
                    break;
                }
                m.apply(&op2);
                hh.push(op2);
            }
            if ok && !out.contains(&hh) {
                out.push(hh);
            }
        }
    }
    out
}

pub struct Recorded {
    pub log: Vec<Ev>,
    pub final_image: Image,
    pub replay_matches: bool,
    /// result of each op (index 0 = open/creation)
    pub results: Vec<Result<(), String>>,
}

/// Executes `h` from an empty directory with the I/O recorder installed.
pub fn record_history(h: &[Op], fail_at: Option<usize>) -> (Recorded, Option<(Sut, GraphModel, ScratchGuard)>) {
    let dir = scratch_dir("rec");
    let guard = ScratchGuard(dir.clone());
    let rec = Recorder::new();
    *rec.fail_at.lock().unwrap() = fail_at;
    let mut results = Vec::new();
    let mut model = GraphModel::default();
    let r2 = rec.clone();
    let sut = with_hooks(rec.clone(), || {
        r2.mark(Ev::OpBegin(0));
        let mut sut = match Sut::new(&dir) {
            Ok(s) => {
                r2.mark(Ev::OpEnd(0, true));
                results.push(Ok(()));
                s
            }
            Err(e) => {
                r2.mark(Ev::OpEnd(0, false));
                results.push(Err(e));
                return None;
            }
        };
        for (i, op) in h.iter().enumerate() {
            r2.mark(Ev::OpBegin(i + 1));
            let r = sut.apply(op, &model);
            r2.mark(Ev::OpEnd(i + 1, r.is_ok()));
            let ok = r.is_ok();
            results.push(r);
            if ok {
                model.apply(op);
            } else if sut.db.is_none() {
                return None;
            } else if fail_at.is_none() {
                return Some(sut);
            }
        }
        Some(sut)
    });
    let log = rec.take_log();
    let final_image = read_dir_image(&dir);
    let replayed = image_process_death(&log, log.len());
    let replay_matches = replayed == final_image;
    (Recorded { log, final_image, replay_matches, results }, sut.map(|s| (s, model, guard)))
}

pub struct Recovered {
    pub sut: Sut,
    pub dump: Dump,
    pub _guard: ScratchGuard,
}

pub fn recover(img: &Image) -> Result<Recovered, String> {
    let dir = scratch_dir("img");
    let guard = ScratchGuard(dir.clone());
    write_image(&dir, img);
    let sut = Sut::new(&dir)?;
    let dump = sut.dump(&ctr_spec());
    Ok(Recovered { sut, dump, _guard: guard })
}

fn ctr_value(d: &Dump) -> Option<i64> {
    let n = d.nodes.get(&CTR)?;
    let s = n.p1.get("k")?;
    s.strip_prefix("Int(")?.strip_suffix(')')?.parse().ok()
}

/// Reference dumps of every clean prefix: Ref[p] = dump after the first p operations + drop/reopen.
fn reference_prefixes(h: &[Op]) -> Vec<Option<Dump>> {
    let mut out = Vec::new();
    for p in 0..=h.len() {
        let mut r = crate::seq::run_history(&h[..p]);
        if r.failed_at.is_some() {
            out.push(None);
            continue;
        }
        let m = r.model.clone();
        let sut = r.sut.as_mut().unwrap();
        if sut.apply(&Op::DropOpen, &m).is_err() {
            out.push(None);
            continue;
        }
        out.push(Some(sut.dump(&ctr_spec())));
    }
    out
}

#[derive(Clone)]
struct CutInfo {
    completed: usize,
    in_progress: Option<usize>,
    last_acked_tx: usize,
}

fn cut_info(log: &[Ev], cut: usize, h: &[Op]) -> CutInfo {
    let mut completed = 0;
    let mut in_progress = None;
    let mut last_acked_tx = 0;
    for ev in &log[..cut] {
        match ev {
            Ev::OpBegin(i) => in_progress = Some(*i),
            Ev::OpEnd(i, ok) => {
                in_progress = None;
                if *i >= 1 {
                    completed = *i;
                    if *ok && matches!(h[*i - 1], Op::Tx(_)) {
                        last_acked_tx = *i;
                    }
                }
            }
            _ => {}
        }
    }
    CutInfo { completed, in_progress, last_acked_tx }
}

fn io_desc_at(log: &[Ev], cut: usize) -> String {
    match log.get(cut) {
        Some(Ev::Io(op)) => describe(op),
        Some(other) => format!("{other:?}"),
        None => "end".into(),
    }
}

/// Class of the I/O step at which the crash happened, abstracted for signatures.
fn step_kind(log: &[Ev], cut: usize) -> String {
    match log.get(cut) {
        Some(Ev::Io(op)) => match op {
            IoOp::Append { path, .. } => format!("crash@append:{}", ext(path)),
            IoOp::Write { path, owner, .. } => format!("crash@write:{}:{}", ext(path), owner),
            IoOp::Sync { path } => format!("crash@sync:{}", ext(path)),
            IoOp::SetLen { path, .. } => format!("crash@set_len:{}", ext(path)),
            IoOp::Create { path } => format!("crash@create:{}", ext(path)),
            IoOp::Rename { .. } => "crash@rename".into(),
            IoOp::Remove { .. } => "crash@remove".into(),
            IoOp::Copy { .. } => "crash@copy".into(),
            _ => "crash@other".into(),
        },
        _ => "crash@boundary".into(),
    }
}

fn ext(p: &Path) -> String {
    let n = p.file_name().map(|s| s.to_string_lossy().into_owned()).unwrap_or_default();
    if n.contains(".wal.tmp") { "waltmp".into() } else if n.ends_with(".wal") { "wal".into() } else if n.ends_with(".ndb") { "ndb".into() } else { "other".into() }
}

fn err_class(e: &str) -> String {
    if e.starts_with("PANIC@") {
        return e.split(": ").next().unwrap_or(e).to_string();
    }
    truncate(e, 70)
}

#[derive(Clone, Copy, PartialEq)]
pub enum Which {
    C01,
    C02,
}

/// Shared enumeration for C01 / C02.
pub fn crash_check(which: Which, tier: Tier) -> i32 {
    let id = if which == Which::C01 { "C01" } else { "C02" };
    let rep = Report::new(id, tier);
    rep.rule("every history of the crash alphabet up to the stated length is executed once on the real engine with the I/O recorder; the full log replayed onto empty files must equal the real files (conformance); then for EVERY event index k a process-death image (all effects before k) and all enumerated power-loss images (per file: none/all/all-but-one/only-one/prefix of the unsynced operations, 8 KiB writes torn at 4 KiB, un-journalled renames; thorough: all subsets <= 10) are recovered with the real Db::open; identical images are recovered once; non-trivial = distinct images recovered");
    let histories = crash_histories(tier.pick(2, 3), true);
    rep.set("histories", json!(histories.len()));
    rep.set("continuation_rounds", json!(1));
    let thorough = tier == Tier::Thorough;
    let cap = tier.pick(50.0, 2400.0);
    histories.par_iter().for_each(|h| {
        if rep.elapsed() > cap {
            rep.not_exhaustive(&format!("wall cap {cap}s hit; remaining histories skipped"));
            return;
        }
        let (recd, live) = record_history(h, None);
        drop(live);
        rep.add_evals(1);
        if recd.results.iter().any(|r| r.is_err()) {
            rep.outcome("history_failed_without_fault");
            return;
        }
        if !recd.replay_matches {
            // conformance failure of the disk model is a machinery problem, not a verdict
            rep.outcome("MACHINERY:replay_mismatch");
            rep.bump("replay_mismatches", 1);
            return;
        }
        rep.add_traces(1);
        let refs = reference_prefixes(h);
        let log = &recd.log;
        let hk = kinds(h);
        let mut seen: BTreeSet<u64> = BTreeSet::new();
        let mut cont_seen: BTreeSet<(u64, usize, bool)> = BTreeSet::new();
        for cut in 0..=log.len() {
            if cut < log.len() && !matches!(log[cut], Ev::Io(_)) {
                continue;
            }
            let info = cut_info(log, cut, h);
            let mut images: Vec<(String, Image)> = vec![("process-death".into(), image_process_death(log, cut))];
            let ps = power_state(log, cut);
            for (n, i) in power_loss_images(&ps, thorough) {
                images.push((format!("power-loss:{n}"), i));
            }
            for (mode, img) in images {
                rep.add_transitions(1);
                let hsh = image_hash(&img) ^ ((info.last_acked_tx as u64) << 56) ^ ((info.completed as u64) << 48) ^ ((info.in_progress.is_some() as u64) << 47);
                if !seen.insert(hsh) {
                    continue;
                }
                rep.add_states(1);
                rep.add_nontrivial(1);
                let mode_kind = if mode.starts_with("process") { "process-death".to_string() } else { "power-loss".to_string() };
                let mut kinds_v = hk[..hk.len()].to_vec();
                kinds_v.push(step_kind(log, cut));
                kinds_v.push(mode_kind.clone());
                let replay = json!({"engine":"crash","history": show_history(h), "cut": cut, "io_step": io_desc_at(log, cut), "mode": mode,
                                     "completed_ops": info.completed, "in_progress": info.in_progress, "last_acked_tx": info.last_acked_tx});
                let in_op = info.in_progress.map(|i| if i == 0 { "Open".to_string() } else { h[i - 1].kind() }).unwrap_or_else(|| "idle".into());
                let rec = match recover(&img) {
                    Ok(r) => r,
                    Err(e) => {
                        // Not even the files of an interrupted creation may make open fail; but an
                        // image without any durable file is simply an empty directory (open creates).
                        let class = format!("open_failed:{}", err_class(&e));
                        rep.outcome(&class);
                        let relevant = match which {
                            Which::C01 => info.last_acked_tx > 0,
                            Which::C02 => true,
                        };
                        if relevant {
                            rep.violation(Violation { class, kinds: with_in(&kinds_v, &in_op), replay, detail: e });
                        }
                        continue;
                    }
                };
                if !rec.dump.problems.is_empty() {
                    let class = format!("read_failed_after_recovery:{}", err_class(&rec.dump.problems[0]));
                    rep.outcome(&class);
                    if which == Which::C02 || info.last_acked_tx > 0 {
                        rep.violation(Violation { class, kinds: with_in(&kinds_v, &in_op), replay, detail: rec.dump.problems.join("; ") });
                    }
                    continue;
                }
                match which {
                    Which::C01 => {
                        let got = ctr_value(&rec.dump).unwrap_or(0) as usize;
                        if got < info.last_acked_tx {
                            let class = "acked_tx_lost".to_string();
                            rep.outcome(&class);
                            rep.violation(Violation { class, kinds: with_in(&kinds_v, &in_op), replay, detail: format!("counter {got} after recovery, but transaction {} was acknowledged", info.last_acked_tx) });
                            continue;
                        }
                        rep.outcome("durable");
                        // continuation: one more acknowledged transaction must survive everything that follows.
                        // Recovery is a function of the files, so equal post-recovery files are continued once.
                        let post = image_hash(&read_dir_image(&rec.sut.dir));
                        let deep = thorough || mode.starts_with("process");
                        if cont_seen.insert((post, info.last_acked_tx, deep)) && !(deep == false && cont_seen.contains(&(post, info.last_acked_tx, true))) {
                            rep.bump("continuations", 1);
                            continuation(&rep, rec, &kinds_v, &in_op, &replay, info.last_acked_tx, deep);
                        }
                    }
                    Which::C02 => {
                        let hi = info.completed + usize::from(info.in_progress.is_some_and(|i| i >= 1));
                        let hi = hi.min(h.len());
                        let mut matched = None;
                        for p in 0..=hi {
                            if let Some(Some(r)) = refs.get(p) {
                                if r.diff(&rec.dump).is_none() {
                                    matched = Some(p);
                                }
                            }
                        }
                        match matched {
                            Some(p) => {
                                rep.outcome(&format!("prefix(behind={})", hi - p));
                                // second round: one more commit and a clean restart must leave exactly
                                // prefix p plus that commit (no resurrected or merged transaction)
                                let post = image_hash(&read_dir_image(&rec.sut.dir));
                                if cont_seen.insert((post, p, true)) {
                                    rep.bump("continuations", 1);
                                    let mut rec = rec;
                                    let m = GraphModel::default();
                                    let mk = Op::Tx(vec![Op::CreateNode { e: 900, labels: vec!["M"] }, Op::SetNodeProp { e: 900, k: "k", v: Val::I(7) }, Op::CreateEdge { s: 900, t: "R", d: 900 }]);
                                    let mut kv = with_in(&kinds_v, &in_op);
                                    kv.push("continue:Tx".into());
                                    let res = rec.sut.apply(&mk, &m).and_then(|_| rec.sut.apply(&Op::DropOpen, &m));
                                    match res {
                                        Err(e) => {
                                            let class = format!("second_round_failed:{}", err_class(&e));
                                            rep.outcome(&class);
                                            rep.violation(Violation { class, kinds: kv, replay: replay.clone(), detail: e });
                                        }
                                        Ok(()) => {
                                            let d = rec.sut.dump(&ctr_spec());
                                            let want = refs[p].as_ref().unwrap();
                                            let marker_ok = d.problems.is_empty()
                                                && d.nodes.get(&900).is_some_and(|n| n.p1.get("k").map(|s| s.as_str()) == Some("Int(7)") && n.labels.contains("M"))
                                                && d.eo.get(&(900, "R".to_string(), 900)) == Some(&1);
                                            if !marker_ok {
                                                rep.outcome("second_round:marker_partial");
                                                rep.violation(Violation { class: "second_round:marker_partial".into(), kinds: kv, replay: replay.clone(), detail: format!("{:?} problems={:?}", d.nodes.get(&900), d.problems) });
                                            } else if let Some((c, dd)) = strip_marker(want, 900).diff(&strip_marker(&d, 900)) {
                                                let class = format!("second_round:not_a_prefix:{c}");
                                                rep.outcome(&class);
                                                rep.violation(Violation { class, kinds: kv, replay: replay.clone(), detail: dd });
                                            }
                                        }
                                    }
                                }
                            }
                            None => {
                                // classify against the nearest reference
                                let near = refs.get(hi).and_then(|r| r.as_ref()).or_else(|| refs.iter().rev().flatten().next());
                                let (c, d) = near.and_then(|r| r.diff(&rec.dump)).unwrap_or(("diff:unknown".into(), String::new()));
                                let class = format!("not_a_prefix:{c}");
                                rep.outcome(&class);
                                rep.violation(Violation { class, kinds: with_in(&kinds_v, &in_op), replay: json!({"case": replay, "recovered": rec.dump.to_json()}), detail: format!("recovered state equals no clean prefix 0..={hi}; vs prefix {hi}: {d}") });
                            }
                        }
                    }
                }
            }
        }
        rep.sample(json!({"history": show_history(h), "events": log.len()}));
    });
    let mism = rep.extra.lock().unwrap().get("replay_mismatches").and_then(|v| v.as_u64()).unwrap_or(0);
    if mism > 0 {
        eprintln!("MACHINERY: {mism} recorded logs did not reproduce the real files");
        rep.finish();
        return 2;
    }
    rep.assume("disk model: write syscalls are atomic and ordered for process death; for power loss only fsynced data is guaranteed, any enumerated subset of later writes may have reached the disk, sectors are 4 KiB, file creation is durable from the file's first fsync, renames are atomic and durable with the next fsync");
    rep.finish()
}

fn with_in(kinds_v: &[String], in_op: &str) -> Vec<String> {
    let mut v = kinds_v.to_vec();
    v.push(format!("during:{in_op}"));
    v
}

/// After a successful recovery: commit a marker transaction (acknowledged), then
/// (i) clean reopen, (ii) crash at every I/O step of that commit (process death) and recover,
/// (iii) a second clean reopen.  The marker and the earlier counter must survive.
fn continuation(rep: &Report, rec: Recovered, kinds_v: &[String], in_op: &str, replay: &Value, acked: usize, deep: bool) {
    let Recovered { sut, dump: _, _guard } = rec;
    let base_dir = sut.dir.clone();
    drop(sut);
    let start_img = read_dir_image(&base_dir);
    // record the marker commit on a copy
    let dir = scratch_dir("cont");
    let _g = ScratchGuard(dir.clone());
    write_image(&dir, &start_img);
    let recd = Recorder::new();
    let marker_ext = 900u64;
    let r2 = recd.clone();
    let res: Result<(), String> = with_hooks(recd.clone(), || {
        let mut s = Sut::new(&dir)?;
        // ids of existing nodes are unknown to this Sut; the marker only creates
        r2.mark(Ev::OpBegin(1));
        let m = GraphModel::default();
        let r = s.apply(&Op::Tx(vec![Op::CreateNode { e: marker_ext, labels: vec!["M"] }, Op::SetNodeProp { e: marker_ext, k: "k", v: Val::I(7) }, Op::CreateEdge { s: marker_ext, t: "R", d: marker_ext }]), &m);
        r2.mark(Ev::OpEnd(1, r.is_ok()));
        r
    });
    let mut kv = with_in(kinds_v, in_op);
    kv.push("continue:Tx".into());
    if let Err(e) = res {
        let class = format!("continuation_commit_failed:{}", err_class(&e));
        rep.outcome(&class);
        rep.violation(Violation { class, kinds: kv, replay: replay.clone(), detail: e });
        return;
    }
    let log = recd.take_log();
    let check_marker = |d: &Dump, need_marker: bool| -> Option<(String, String)> {
        if !d.problems.is_empty() {
            return Some((format!("read_failed_after_continuation:{}", err_class(&d.problems[0])), d.problems.join(";")));
        }
        let got = ctr_value(d).unwrap_or(0) as usize;
        if got < acked {
            return Some(("acked_tx_lost_after_continuation".into(), format!("counter {got} < acknowledged {acked}")));
        }
        if need_marker {
            let Some(n) = d.nodes.get(&marker_ext) else {
                return Some(("continuation_tx_lost".into(), "marker node missing".into()));
            };
            if n.p1.get("k").map(|s| s.as_str()) != Some("Int(7)") || !n.labels.contains("M") {
                return Some(("continuation_tx_partial".into(), format!("marker node incomplete: {n:?}")));
            }
            if d.eo.get(&(marker_ext, "R".to_string(), marker_ext)) != Some(&1) {
                return Some(("continuation_tx_partial".into(), "marker relationship missing".into()));
            }
        }
        None
    };
    // (ii) crash inside / after the marker commit; the image starts from start_img
    let mut seen = BTreeSet::new();
    for cut in 0..=log.len() {
        if cut < log.len() && !matches!(log[cut], Ev::Io(_)) {
            continue;
        }
        if !deep && cut != log.len() {
            continue; // quick tier, power-loss images: only the clean continuation
        }
        let mut img = start_img.clone();
        let mut acked_marker = false;
        for ev in &log[..cut] {
            match ev {
                Ev::Io(op) => apply_io(&mut img, op),
                Ev::OpEnd(1, true) => acked_marker = true,
                _ => {}
            }
        }
        if !seen.insert((image_hash(&img), acked_marker)) {
            continue;
        }
        rep.add_transitions(1);
        match recover(&img) {
            Err(e) => {
                let class = format!("open_failed_after_continuation:{}", err_class(&e));
                rep.outcome(&class);
                let mut k = kv.clone();
                k.push(step_kind(&log, cut));
                rep.violation(Violation { class, kinds: k, replay: json!({"first": replay, "second_cut": cut, "io_step": io_desc_at(&log, cut)}), detail: e });
            }
            Ok(mut r) => {
                if let Some((class, detail)) = check_marker(&r.dump, acked_marker) {
                    rep.outcome(&class);
                    let mut k = kv.clone();
                    k.push(step_kind(&log, cut));
                    rep.violation(Violation { class, kinds: k, replay: json!({"first": replay, "second_cut": cut, "io_step": io_desc_at(&log, cut)}), detail });
                } else if acked_marker && cut == log.len() {
                    // (iii) one more clean reopen
                    let m = GraphModel::default();
                    if let Err(e) = r.sut.apply(&Op::DropOpen, &m) {
                        rep.violation(Violation { class: format!("second_reopen_failed:{}", err_class(&e)), kinds: kv.clone(), replay: replay.clone(), detail: e });
                    } else if let Some((class, detail)) = check_marker(&r.sut.dump(&ctr_spec()), true) {
                        rep.violation(Violation { class: format!("second_reopen:{class}"), kinds: kv.clone(), replay: replay.clone(), detail });
                    }
                }
            }
        }
    }
}

pub fn c01(tier: Tier) -> i32 {
    crash_check(Which::C01, tier)
}
pub fn c02(tier: Tier) -> i32 {
    crash_check(Which::C02, tier)
}

pub type _Unused = (BTreeMap<u8, u8>, Arc<u8>);

// ---------------------------------------------------------------------------------------------
// C08 Failed commits are all-or-nothing (single injected I/O error at every step)
// ---------------------------------------------------------------------------------------------

fn strip_marker(d: &Dump, marker: u64) -> Dump {
    let mut d = d.clone();
    // the marker transaction creates nodes `marker` and `marker + 1` and a relationship between them
    let is_m = |e: u64| e == marker || e == marker + 1;
    d.nodes.retain(|e, _| !is_m(*e));
    d.eo.retain(|k, _| !is_m(k.0));
    d.ei.retain(|k, _| !is_m(k.0));
    d.eot.retain(|k, _| !is_m(k.0));
    d.eit.retain(|k, _| !is_m(k.0));
    d.ep1.retain(|k, _| !is_m(k.0));
    d.epm.retain(|k, _| !is_m(k.0));
    d.tomb_flagged.clear();
    d
}

pub fn c08(tier: Tier) -> i32 {
    let rep = Report::new("C08", tier);
    rep.rule("every history of the crash alphabet up to the stated length; for EVERY counted I/O step k of the clean run (writes, appends, fsyncs, set_len, create, rename) the history is re-executed with a one-shot EIO injected at step k; execution stops after the operation that received the error; oracle: Err => live state unchanged, Ok (error swallowed) => live state fully updated; then, in two flows (the failed operation re-issued first / not re-issued), a marker transaction that introduces new label and relationship-type names must commit and be visible; after drop+reopen the database opens and shows the faulted operation entirely or not at all, plus the marker with its names intact; histories include a reopen right before the faulted operation; plus a family of commits that the engine may refuse without any fault (a vector of another dimension than the indexed ones, alone and together with other writes): an error means no live effect, and after reopen the transaction is absent or complete; non-trivial = one (history, k) pair");
    let mut histories = crash_histories(tier.pick(2, 3), tier == Tier::Thorough);
    {
        // a reopen right before the operation that receives the fault (fresh handles have fresh cursors)
        let s = sigma_crash();
        let wc = |i: usize, pos: usize| with_counter(&s[i], pos);
        histories.push(vec![wc(0, 1), Op::DropOpen, wc(3, 3)]);
        histories.push(vec![wc(0, 1), wc(2, 2), Op::CloseOpen, wc(4, 4)]);
        histories.push(vec![wc(0, 1), Op::DropOpen, wc(1, 3)]);
    }
    rep.set("histories", json!(histories.len()));
    let cap = tier.pick(50.0, 2400.0);
    let marker = 900u64;
    // two flows after a failed operation: "retry" re-issues it, "move_on" goes straight to the marker transaction
    let work: Vec<(&Vec<Op>, bool)> = histories.iter().flat_map(|h| [(h, true), (h, false)]).collect();
    work.par_iter().for_each(|(h, do_retry)| {
        let h: &Vec<Op> = h;
        let do_retry = *do_retry;
        if rep.elapsed() > cap {
            rep.not_exhaustive(&format!("wall cap {cap}s hit; remaining histories skipped"));
            return;
        }
        let (clean, live) = record_history(h, None);
        drop(live);
        if clean.results.iter().any(|r| r.is_err()) {
            rep.outcome("history_failed_without_fault");
            return;
        }
        rep.add_traces(1);
        let total_io = clean.log.iter().filter(|e| matches!(e, Ev::Io(op) if !matches!(op, IoOp::PageAlloc{..} | IoOp::PageFree{..}))).count();
        // reference states: live after p ops; reopened after p ops
        let mut live_refs: Vec<Option<Dump>> = Vec::new();
        for p in 0..=h.len() {
            let r = crate::seq::run_history(&h[..p]);
            live_refs.push(if r.failed_at.is_some() { None } else { Some(strip_marker(&r.sut.as_ref().unwrap().dump(&ctr_spec()), marker)) });
        }
        let reopen_refs: Vec<Option<Dump>> = reference_prefixes(h).into_iter().map(|d| d.map(|d| strip_marker(&d, marker))).collect();
        let hk = kinds(h);
        for k in 0..total_io {
            rep.add_transitions(1);
            rep.add_states(1);
            rep.add_nontrivial(1);
            // run until the faulted operation has returned
            let dir = scratch_dir("fault");
            let _g = ScratchGuard(dir.clone());
            let rec = Recorder::new();
            *rec.fail_at.lock().unwrap() = Some(k);
            let mut model = GraphModel::default();
            let mut faulted: Option<(usize, Result<(), String>)> = None;
            let mut sut_opt: Option<Sut> = None;
            let r2 = rec.clone();
            with_hooks(rec.clone(), || {
                let fired = |r: &Recorder| r.injected.load(std::sync::atomic::Ordering::SeqCst) > 0;
                match Sut::new(&dir) {
                    Ok(s) => {
                        if fired(&r2) {
                            faulted = Some((0, Ok(())));
                        }
                        sut_opt = Some(s);
                    }
                    Err(e) => {
                        faulted = Some((0, Err(e)));
                        return;
                    }
                }
                if faulted.is_some() {
                    return;
                }
                let sut = sut_opt.as_mut().unwrap();
                for (i, op) in h.iter().enumerate() {
                    let r = sut.apply(op, &model);
                    if fired(&r2) {
                        if r.is_ok() {
                            model.apply(op);
                        }
                        faulted = Some((i + 1, r));
                        return;
                    }
                    match r {
                        Ok(()) => model.apply(op),
                        Err(e) => {
                            faulted = Some((i + 1, Err(format!("unexpected failure before the fault: {e}"))));
                            return;
                        }
                    }
                }
            });
            let fault_desc = rec.snapshot_log().iter().find_map(|e| if let Ev::Fault(d) = e { Some(d.clone()) } else { None }).unwrap_or_default();
            let Some((f, res)) = faulted else {
                rep.outcome("fault_not_reached");
                continue;
            };
            let op_kind = if f == 0 { "Open".to_string() } else { h[f - 1].kind() };
            let fk = {
                let mut w = fault_desc.split_whitespace();
                let a = w.next().unwrap_or("");
                let b = w.next().unwrap_or("");
                let file = if b.contains(".wal.tmp") { "waltmp" } else if b.contains(".wal") { "wal" } else if b.contains(".ndb") { "ndb" } else { "other" };
                let owner = fault_desc.split("owner=").nth(1).unwrap_or("");
                format!("fault@{a}:{file}{}{}", if owner.is_empty() { "" } else { ":" }, owner)
            };
            let mut kv: Vec<String> = hk[..kinds(&h[..f.min(h.len())]).len().min(hk.len())].to_vec();
            kv.push(fk.clone());
            kv.push(format!("during:{op_kind}"));
            if !do_retry {
                kv.push("flow:move_on".to_string());
            }
            let replay = json!({"engine":"fault","history": show_history(h), "fail_at": k, "io_step": fault_desc, "faulted_op": f, "op_result": format!("{res:?}")});
            let report = |class: String, detail: String| {
                rep.outcome(&class);
                rep.violation(Violation { class, kinds: kv.clone(), replay: replay.clone(), detail });
            };
            // make sure there is an open handle (a failed open / close is retried once; the fault is one-shot)
            if sut_opt.as_ref().is_none_or(|s| s.db.is_none()) {
                match sut_opt.as_mut() {
                    Some(s) => {
                        if let Err(e) = s.reopen() {
                            report(format!("reopen_after_failed_{}:{}", op_kind, err_class(&e)), e);
                            continue;
                        }
                    }
                    None => match Sut::new(&dir) {
                        Ok(s) => sut_opt = Some(s),
                        Err(e) => {
                            report(format!("open_after_failed_open:{}", err_class(&e)), e);
                            continue;
                        }
                    },
                }
            }
            let sut = sut_opt.as_mut().unwrap();
            let before = live_refs.get(f.saturating_sub(1)).cloned().flatten();
            let after = live_refs.get(f.min(h.len())).cloned().flatten();
            let live = strip_marker(&sut.dump(&ctr_spec()), marker);
            let is_reopen_op = f >= 1 && matches!(h[f - 1], Op::CloseOpen | Op::DropOpen);
            let mut ok_label = "err:unchanged";
            if f >= 1 && !is_reopen_op {
                match &res {
                    Err(_) => {
                        if let Some(b) = &before {
                            if let Some((c, d)) = b.diff(&live) {
                                report(format!("failed_op_visible:{c}"), format!("operation returned an error but the live state changed: {d}"));
                                continue;
                            }
                        }
                    }
                    Ok(()) => {
                        ok_label = "ok:applied";
                        if let Some(a) = &after {
                            if let Some((c, d)) = a.diff(&live) {
                                report(format!("swallowed_fault_partial:{c}"), format!("operation reported success but its effect is not fully visible: {d}"));
                                continue;
                            }
                        }
                    }
                }
            }
            // a failed operation can simply be issued again (the fault was one-shot): it must now
            // succeed and take full effect, live and after reopen (catches state leaked by the failure)
            let mut retried = false;
            if !do_retry && !(f >= 1 && !is_reopen_op && res.is_err()) {
                // the second flow only differs when there is something to retry
                continue;
            }
            if do_retry && f >= 1 && !is_reopen_op && res.is_err() {
                if let Err(e) = sut.apply(&h[f - 1], &model) {
                    report(format!("retry_of_failed_op_rejected:{}", err_class(&e)), e);
                    continue;
                }
                retried = true;
                let live2 = strip_marker(&sut.dump(&ctr_spec()), marker);
                if let Some(a) = &after {
                    if let Some((c, d)) = a.diff(&live2) {
                        report(format!("retry_of_failed_op_partial:{c}"), d);
                        continue;
                    }
                }
            }
            // marker transaction
            let m = GraphModel::default();
            // the marker transaction introduces NEW label and relationship type names (name-table entries that
            // a failed operation may have leaked would shift them)
            let mk = Op::Tx(vec![Op::CreateNode { e: marker, labels: vec!["M"] }, Op::SetNodeProp { e: marker, k: "k", v: Val::I(7) }, Op::CreateNode { e: marker + 1, labels: vec!["Mtwo"] }, Op::CreateEdge { s: marker, t: "MQ", d: marker + 1 }]);
            if let Err(e) = sut.apply(&mk, &m) {
                report(format!("later_tx_rejected:{}", err_class(&e)), e);
                continue;
            }
            let d = sut.dump(&ctr_spec());
            if d.nodes.get(&marker).and_then(|n| n.p1.get("k")).map(|s| s.as_str()) != Some("Int(7)") {
                report("later_tx_not_visible".into(), format!("{:?}", d.nodes.get(&marker)));
                continue;
            }
            if let Err(e) = sut.apply(&Op::DropOpen, &m) {
                report(format!("reopen_failed:{}", err_class(&e)), e);
                continue;
            }
            let d = sut.dump(&ctr_spec());
            if !d.problems.is_empty() {
                report(format!("read_failed_after_reopen:{}", err_class(&d.problems[0])), d.problems.join(";"));
                continue;
            }
            if d.nodes.get(&marker).and_then(|n| n.p1.get("k")).map(|s| s.as_str()) != Some("Int(7)") {
                report("later_tx_lost_after_reopen".into(), format!("{:?}", d.nodes.get(&marker)));
                continue;
            }
            let names_ok = d.nodes.get(&marker).is_some_and(|n| n.labels.iter().map(|l| l.as_str()).eq(["M"])) && d.nodes.get(&(marker + 1)).is_some_and(|n| n.labels.iter().map(|l| l.as_str()).eq(["Mtwo"])) && d.eo.get(&(marker, "MQ".to_string(), marker + 1)) == Some(&1);
            if !names_ok {
                report("later_tx_names_changed_after_reopen".into(), format!("marker nodes after reopen: {:?} / {:?}; outgoing relationships {:?}", d.nodes.get(&marker).map(|n| &n.labels), d.nodes.get(&(marker + 1)).map(|n| &n.labels), d.eo.iter().filter(|(k, _)| k.0 == marker).collect::<Vec<_>>()));
                continue;
            }
            let stripped = strip_marker(&d, marker);
            let lo = f.saturating_sub(1);
            let hi = f.min(h.len());
            let mut matched = false;
            for p in if retried { vec![hi] } else { vec![lo, hi] } {
                if let Some(Some(r)) = reopen_refs.get(p) {
                    if r.diff(&stripped).is_none() {
                        matched = true;
                    }
                }
            }
            if !matched {
                let (c, dd) = reopen_refs.get(hi).and_then(|r| r.as_ref()).and_then(|r| r.diff(&stripped)).unwrap_or(("diff:unknown".into(), String::new()));
                report(format!("partial_after_reopen:{c}"), format!("after reopen the faulted operation is neither fully present nor fully absent: {dd}"));
                continue;
            }
            rep.outcome(ok_label);
        }
        rep.sample(json!({"history": show_history(h), "io_steps": total_io}));
    });
    // commits that may fail WITHOUT any injected fault (a request the engine can refuse at commit time: a vector of
    // another dimension than the indexed ones, alone or together with other writes): if commit reports an error the
    // live state is unchanged, and after reopen the transaction is present entirely or not at all
    {
        let pre = vec![
            Op::Tx(vec![Op::CreateNode { e: 1, labels: vec!["A"] }, Op::SetNodeProp { e: 1, k: "k", v: Val::I(1) }, Op::SetVector { e: 1, v: [1, 1] }]),
            Op::Tx(vec![Op::CreateNode { e: 2, labels: vec!["A"] }, Op::SetVector { e: 2, v: [3, 0] }]),
        ];
        let bodies: Vec<Vec<Op>> = vec![
            vec![Op::SetVector3 { e: 1, v: [1, 1, 1] }],
            vec![Op::SetNodeProp { e: 1, k: "k", v: Val::I(2) }, Op::SetVector3 { e: 1, v: [1, 1, 1] }],
            vec![Op::CreateNode { e: 3, labels: vec!["B"] }, Op::SetVector { e: 3, v: [0, 0] }, Op::SetVector3 { e: 2, v: [0, 0, 1] }, Op::CreateEdge { s: 1, t: "R", d: 3 }],
        ];
        for (bi, body) in bodies.iter().enumerate() {
            rep.add_states(1);
            rep.add_traces(1);
            rep.add_transitions(4);
            let r = crate::seq::run_history(&pre);
            let Some(mut sut) = r.sut else { continue };
            if r.failed_at.is_some() {
                continue;
            }
            let model = r.model.clone();
            let before = sut.dump(&ctr_spec());
            let mut m_after = model.clone();
            let op = Op::Tx(body.clone());
            let res = sut.apply(&op, &model);
            let live = sut.dump(&ctr_spec());
            let kinds_v: Vec<String> = std::iter::once("refused_commit_family".to_string()).chain(kinds(std::slice::from_ref(&op))).collect();
            let replay = json!({"engine":"fault","family":"commit_refused_without_fault","prefix": show_history(&pre), "transaction": op.show()});
            match &res {
                Err(e) => {
                    rep.add_nontrivial(1);
                    if let Some((c, d)) = before.diff(&live) {
                        rep.outcome("failed_commit_visible");
                        rep.violation(Violation { class: format!("failed_commit_visible:{c}"), kinds: kinds_v, replay, detail: format!("commit reported '{e}' (no fault was injected) but the live state changed: {d}") });
                        continue;
                    }
                }
                Ok(()) => m_after.apply(&op),
            }
            if let Err(e) = sut.apply(&Op::DropOpen, &m_after) {
                rep.violation(Violation { class: format!("reopen_failed_after_refused_commit:{}", err_class(&e)), kinds: kinds_v, replay, detail: e });
                continue;
            }
            let reopened = sut.dump(&ctr_spec());
            let expect_all = crate::seq::run_history(&[pre.clone(), vec![op.clone()]].concat());
            let all = expect_all.sut.as_ref().filter(|_| expect_all.failed_at.is_none()).map(|s| s.dump(&ctr_spec()));
            let ok = before.diff(&reopened).is_none() || all.as_ref().is_some_and(|a| a.diff(&reopened).is_none()) || (res.is_ok() && live.diff(&reopened).is_none());
            if !ok {
                let (c, d) = before.diff(&reopened).unwrap_or(("diff:unknown".into(), String::new()));
                rep.outcome("refused_commit_partial_after_reopen");
                rep.violation(Violation { class: format!("refused_commit_partial_after_reopen:{c}"), kinds: kinds_v, replay, detail: format!("body {bi}: commit result {res:?}; after reopen the transaction is neither absent nor complete: {d}") });
                continue;
            }
            rep.outcome(if res.is_ok() { "mixed_dimension_commit_accepted" } else { "refused_commit_without_effect" });
        }
    }
    rep.assume("one I/O error per execution; the error is returned by the seam instead of performing the effect (no partial write)");
    rep.finish()
}

// ---------------------------------------------------------------------------------------------
// C17 Any log tail is tolerated on open
// ---------------------------------------------------------------------------------------------

/// Offsets just behind every complete record and behind every CommitTx record.
fn wal_boundaries(wal: &[u8]) -> (Vec<usize>, Vec<usize>) {
    let mut recs = vec![0usize];
    let mut commits = vec![0usize];
    let mut off = 0usize;
    while off + 8 <= wal.len() {
        let len = u32::from_le_bytes(wal[off..off + 4].try_into().unwrap()) as usize;
        if len == 0 || off + 8 + len > wal.len() {
            break;
        }
        let ty = wal[off + 8];
        off += 8 + len;
        recs.push(off);
        if ty == 2 {
            commits.push(off);
        }
    }
    (recs, commits)
}

fn garbage_tails() -> Vec<(String, Vec<u8>)> {
    let mut t: Vec<(String, Vec<u8>)> = Vec::new();
    for n in [1usize, 4, 7, 8, 9, 64, 8192] {
        t.push((format!("zeros{n}"), vec![0u8; n]));
    }
    for n in [1usize, 4, 8, 64] {
        t.push((format!("ff{n}"), vec![0xFFu8; n]));
    }
    let mut v = 5u32.to_le_bytes().to_vec();
    v.extend_from_slice(&0xDEADBEEFu32.to_le_bytes());
    v.extend_from_slice(b"hello");
    t.push(("len5_badcrc".into(), v));
    t.push(("len_1MiB_plus_1".into(), { let mut v = (1024u32 * 1024 + 1).to_le_bytes().to_vec(); v.extend_from_slice(&[1, 2, 3, 4, 5, 6]); v }));
    t.push(("len_u32max".into(), { let mut v = u32::MAX.to_le_bytes().to_vec(); v.extend_from_slice(&[9; 12]); v }));
    t.push(("len_9_short_body".into(), { let mut v = 9u32.to_le_bytes().to_vec(); v.extend_from_slice(&[0; 6]); v }));
    // a valid BeginTx record followed by half a record
    let body = { let mut b = vec![1u8]; b.extend_from_slice(&777u64.to_le_bytes()); b };
    let mut rec = (body.len() as u32).to_le_bytes().to_vec();
    rec.extend_from_slice(&crc32(&body).to_le_bytes());
    rec.extend_from_slice(&body);
    let mut half = rec.clone();
    half.extend_from_slice(&rec[..rec.len() / 2]);
    t.push(("begin_plus_half_record".into(), half));
    t.push(("complete_begin_only".into(), rec));
    t
}

fn crc32(bytes: &[u8]) -> u32 {
    // CRC-32 (IEEE), bitwise; only used to build small garbage records
    let mut crc = 0xFFFF_FFFFu32;
    for &b in bytes {
        crc ^= b as u32;
        for _ in 0..8 {
            crc = if crc & 1 != 0 { (crc >> 1) ^ 0xEDB8_8320 } else { crc >> 1 };
        }
    }
    !crc
}

pub fn c17(tier: Tier) -> i32 {
    let rep = Report::new("C17", tier);
    rep.rule("for every history of the crash alphabet up to the stated length and every event index k that touches the log (plus every operation boundary): the process-death image at k gives (page file, log); B = end of the last complete transaction in that log; mutations of the bytes behind B, all enumerated: every truncation length in [B, len], each garbage tail of the fixed tail set appended at len and at B, and bit 0 / bit 7 flipped in every byte behind B; oracle: open succeeds, the dump equals the dump recovered from the log cut cleanly at B, then a marker transaction commits and is present after each of two further reopens; non-trivial = distinct mutated images opened");
    let histories = crash_histories(tier.pick(2, 3), true);
    rep.set("histories", json!(histories.len()));
    rep.set("tail_set", json!(garbage_tails().iter().map(|t| t.0.clone()).collect::<Vec<_>>()));
    let cap = tier.pick(50.0, 2400.0);
    histories.par_iter().for_each(|h| {
        if rep.elapsed() > cap {
            rep.not_exhaustive(&format!("wall cap {cap}s hit; remaining histories skipped"));
            return;
        }
        let (recd, live) = record_history(h, None);
        drop(live);
        if recd.results.iter().any(|r| r.is_err()) || !recd.replay_matches {
            rep.outcome("history_unusable");
            return;
        }
        rep.add_traces(1);
        let log = &recd.log;
        let hk = kinds(h);
        let mut seen_base: BTreeSet<u64> = BTreeSet::new();
        let mut seen_img: BTreeSet<u64> = BTreeSet::new();
        for cut in 0..=log.len() {
            let relevant = cut == log.len() || match &log[cut] {
                Ev::Io(IoOp::Append { .. }) | Ev::Io(IoOp::Sync { .. }) => true,
                Ev::OpEnd(..) => true,
                _ => false,
            };
            if !relevant {
                continue;
            }
            let base = image_process_death(log, cut);
            if !seen_base.insert(image_hash(&base)) {
                continue;
            }
            let Some(wal) = base.get("g.wal").cloned() else { continue };
            let (_recs, commits) = wal_boundaries(&wal);
            let b = *commits.last().unwrap();
            let info = cut_info(log, cut, h);
            let in_op = info.in_progress.map(|i| if i == 0 { "Open".to_string() } else { h[i - 1].kind() }).unwrap_or_else(|| "idle".into());
            // expected: log cut cleanly at B
            let mut clean = base.clone();
            clean.insert("g.wal".into(), wal[..b].to_vec());
            let expected = match recover(&clean) {
                Ok(r) => r.dump,
                Err(_) => {
                    rep.outcome("clean_cut_does_not_open");
                    continue;
                }
            };
            let mut muts: Vec<(String, Vec<u8>)> = Vec::new();
            for l in b..=wal.len() {
                muts.push((format!("truncate@+{}", l - b), wal[..l].to_vec()));
            }
            for (name, g) in garbage_tails() {
                let mut w = wal.clone();
                w.extend_from_slice(&g);
                muts.push((format!("append:{name}"), w));
                let mut w = wal[..b].to_vec();
                w.extend_from_slice(&g);
                muts.push((format!("at_boundary:{name}"), w));
            }
            for i in b..wal.len() {
                for bit in [0u8, 7] {
                    let mut w = wal.clone();
                    w[i] ^= 1 << bit;
                    muts.push((format!("flip@+{}b{}", i - b, bit), w));
                }
            }
            for (mname, w) in muts {
                rep.add_transitions(1);
                let mut img = base.clone();
                img.insert("g.wal".into(), w);
                if !seen_img.insert(image_hash(&img)) {
                    continue;
                }
                rep.add_states(1);
                rep.add_nontrivial(1);
                let mclass = mname.split(['@', ':']).next().unwrap_or("").to_string();
                let mut kv = hk.clone();
                kv.push(format!("tail:{}", if mname.starts_with("append") || mname.starts_with("at_boundary") { mname.clone() } else { mclass.clone() }));
                kv.push(format!("during:{in_op}"));
                let replay = json!({"engine":"tail","history": show_history(h), "cut": cut, "mutation": mname, "boundary": b, "wal_len": wal.len()});
                let mut r = match recover(&img) {
                    Ok(r) => r,
                    Err(e) => {
                        let class = format!("open_failed:{}", err_class(&e));
                        rep.outcome(&class);
                        rep.violation(Violation { class, kinds: kv, replay, detail: e });
                        continue;
                    }
                };
                if let Some((c, d)) = expected.diff(&r.dump) {
                    let class = format!("tail_changes_state:{c}");
                    rep.outcome(&class);
                    rep.violation(Violation { class, kinds: kv, replay, detail: d });
                    continue;
                }
                // later commits stay durable
                let m = GraphModel::default();
                let mk = Op::Tx(vec![Op::CreateNode { e: 900, labels: vec!["M"] }, Op::SetNodeProp { e: 900, k: "k", v: Val::I(7) }, Op::CreateEdge { s: 900, t: "R", d: 900 }]);
                let mut failed = None;
                if let Err(e) = r.sut.apply(&mk, &m) {
                    failed = Some((format!("later_commit_failed:{}", err_class(&e)), e));
                } else {
                    for round in 1..=2 {
                        if let Err(e) = r.sut.apply(&Op::DropOpen, &m) {
                            failed = Some((format!("reopen{round}_failed:{}", err_class(&e)), e));
                            break;
                        }
                        let d = r.sut.dump(&ctr_spec());
                        let ok = d.problems.is_empty()
                            && d.nodes.get(&900).is_some_and(|n| n.p1.get("k").map(|s| s.as_str()) == Some("Int(7)") && n.labels.contains("M"))
                            && d.eo.get(&(900, "R".to_string(), 900)) == Some(&1);
                        if !ok {
                            failed = Some((format!("later_commit_lost_after_reopen{round}"), format!("{:?} problems={:?}", d.nodes.get(&900), d.problems)));
                            break;
                        }
                        if let Some((c, dd)) = strip_marker(&expected, 900).diff(&strip_marker(&d, 900)) {
                            failed = Some((format!("state_changed_after_reopen{round}:{c}"), dd));
                            break;
                        }
                    }
                }
                match failed {
                    Some((class, detail)) => {
                        rep.outcome(&class);
                        rep.violation(Violation { class, kinds: kv, replay, detail });
                    }
                    None => rep.outcome("tolerated"),
                }
            }
        }
        rep.sample(json!({"history": show_history(h)}));
    });
    rep.assume("tails with a valid checksum over an undecodable body (unknown record type) are outside the tail set: the engine reports them as corruption");
    rep.finish()
}
