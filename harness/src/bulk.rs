//! C30: a bulk-loaded database equals the database built by committing the same data.
use crate::common::*;
use crate::qry::*;
use crate::seq::big_value;
use crate::sut::*;
use nervusdb::query::{Params, prepare};
use nervusdb::{BulkEdge, BulkNode, Db, PropertyValue};
use rayon::prelude::*;
use serde_json::json;
use std::collections::BTreeMap;
use std::path::Path;

#[derive(Clone, Debug)]
struct BNode {
    ext: u64,
    label: &'static str,
    props: Vec<(&'static str, PropertyValue)>,
}

#[derive(Clone, Debug)]
struct BEdge {
    s: usize,
    t: &'static str,
    d: usize,
    props: Vec<(&'static str, PropertyValue)>,
}

#[derive(Clone, Debug)]
struct Input {
    nodes: Vec<BNode>,
    edges: Vec<BEdge>,
}

impl Input {
    fn show(&self) -> serde_json::Value {
        json!({
            "nodes": self.nodes.iter().map(|n| format!("{}:{} {:?}", n.ext, n.label, n.props.iter().map(|(k, v)| format!("{k}={}", truncate(&format!("{v:?}"), 24))).collect::<Vec<_>>())).collect::<Vec<_>>(),
            "edges": self.edges.iter().map(|e| format!("{}-[{}]->{} {:?}", self.nodes[e.s].ext, e.t, self.nodes[e.d].ext, e.props.iter().map(|(k, v)| format!("{k}={}", truncate(&format!("{v:?}"), 24))).collect::<Vec<_>>())).collect::<Vec<_>>(),
        })
    }
    fn kinds(&self) -> Vec<String> {
        let mut k = vec![format!("nodes={}", self.nodes.len()), format!("edges={}", self.edges.len())];
        let mut seen = std::collections::BTreeSet::new();
        let mut parallel = false;
        for e in &self.edges {
            if !seen.insert((e.s, e.t, e.d)) {
                parallel = true;
            }
            if e.s == e.d {
                k.push("self_loop".into());
            }
            if !e.props.is_empty() {
                k.push("edge_props".into());
            }
            if self.nodes.iter().any(|n| n.label == e.t) {
                k.push("shared_name".into());
            }
        }
        if parallel {
            k.push("parallel".into());
        }
        if self.nodes.iter().any(|n| !n.props.is_empty()) {
            k.push("node_props".into());
        }
        k.sort();
        k.dedup();
        k
    }
}

const EXT: [u64; 3] = [0, 3, 900];

fn prop_sets() -> Vec<Vec<(&'static str, PropertyValue)>> {
    vec![
        vec![],
        vec![("k", PropertyValue::Int(1))],
        vec![("k", PropertyValue::String("s".into())), ("w", PropertyValue::Float(1.5))],
        vec![("k", PropertyValue::Bool(true)), ("w", PropertyValue::List(vec![PropertyValue::Int(1), PropertyValue::Null])), ("big", PropertyValue::String(big_value().to_string()))],
        vec![("k", PropertyValue::Null), ("w", PropertyValue::Map(BTreeMap::from([("a".to_string(), PropertyValue::DateTime(5))])))],
        vec![("k", PropertyValue::Blob(vec![0, 255])), ("w", PropertyValue::Int(i64::MIN))],
    ]
}

/// Family 1: every multiset of at most `max_edges` relationships over all (s, type, d) triples (parallel
/// relationships = multiplicity 2) on 0..=3 nodes with fixed labels.
fn shape_inputs(max_edges: usize) -> Vec<Input> {
    let labels = ["A", "B", "A"];
    let mut out = Vec::new();
    for n in 0..=3usize {
        let nodes: Vec<BNode> = (0..n).map(|i| BNode { ext: EXT[i], label: labels[i], props: vec![] }).collect();
        let mut triples = Vec::new();
        for s in 0..n {
            for d in 0..n {
                for t in ["R", "S"] {
                    triples.push((s, t, d));
                }
            }
        }
        // multisets as non-decreasing index sequences
        fn rec(triples: &[(usize, &'static str, usize)], start: usize, cur: &mut Vec<usize>, max: usize, nodes: &[BNode], out: &mut Vec<Input>) {
            out.push(Input { nodes: nodes.to_vec(), edges: cur.iter().map(|&i| BEdge { s: triples[i].0, t: triples[i].1, d: triples[i].2, props: vec![] }).collect() });
            if cur.len() == max {
                return;
            }
            for i in start..triples.len() {
                // multiplicity at most 2
                if cur.iter().filter(|&&c| c == i).count() >= 2 {
                    continue;
                }
                cur.push(i);
                rec(triples, i, cur, max, nodes, out);
                cur.pop();
            }
        }
        rec(&triples, 0, &mut Vec::new(), max_edges, &nodes, &mut out);
    }
    out
}

/// Family 2: every combination of node labels (incl. a label that is also a relationship type), node
/// property sets (all value kinds, a multi-page value), relationship property sets and relationship
/// types on three fixed shapes over two nodes.
fn attribute_inputs(full: bool) -> Vec<Input> {
    let ps = prop_sets();
    let labels = ["A", "B", "R"];
    let mut out = Vec::new();
    let eps: Vec<usize> = if full { (0..ps.len()).collect() } else { vec![0, 1, 3] };
    let nps: Vec<usize> = if full { (0..ps.len()).collect() } else { vec![0, 2, 3] };
    for shape in 0..5 {
        for l0 in labels {
            for l1 in labels {
                for &p0 in &nps {
                    for &p1 in &nps {
                        for &ep in &eps {
                            for t in ["R", "A"] {
                                if shape == 0 && (ep != 0 || t != "R") {
                                    continue;
                                }
                                let nodes = vec![BNode { ext: EXT[0], label: l0, props: ps[p0].clone() }, BNode { ext: EXT[1], label: l1, props: ps[p1].clone() }];
                                let e = |s, d| BEdge { s, t, d, props: ps[ep].clone() };
                                let edges = match shape {
                                    0 => vec![],
                                    1 => vec![e(0, 1)],
                                    2 => vec![e(1, 0), e(0, 1)],
                                    3 => vec![e(1, 1), BEdge { s: 0, t: "S", d: 1, props: vec![] }],
                                    // the same (start, type, end) twice with different property maps: the later map
                                    // overrides `k` and adds `w2` (the properties of parallel relationships share one key)
                                    _ => vec![e(0, 1), BEdge { s: 0, t, d: 1, props: vec![("k", PropertyValue::Int(7)), ("w2", PropertyValue::Float(0.5))] }],
                                };
                                out.push(Input { nodes, edges });
                            }
                        }
                    }
                }
            }
        }
    }
    out
}

const QUERIES: [&str; 22] = [
    "MATCH (n) RETURN n.k AS k, labels(n) AS l, id(n) IS NOT NULL AS has_id",
    "MATCH (n) RETURN count(*) AS c",
    "MATCH (n:A) RETURN count(*) AS c",
    "MATCH (n:R) RETURN count(*) AS c",
    "MATCH (a)-[r]->(b) RETURN a.k AS a, type(r) AS t, b.k AS b, r.k AS rk",
    "MATCH (a)<-[r]-(b) RETURN a.k AS a, type(r) AS t, b.k AS b",
    "MATCH (a)-[r]-(b) RETURN labels(a) AS a, type(r) AS t, labels(b) AS b",
    "MATCH (a)-[r:R]->(b) RETURN count(*) AS c",
    "MATCH (a)<-[r:S]-(b) RETURN count(*) AS c",
    "MATCH (a)-[r:A]-(b) RETURN count(*) AS c",
    "MATCH (a)-[*1..2]->(b) RETURN count(*) AS c",
    "MATCH (a)<-[*1..2]-(b) RETURN count(*) AS c",
    "MATCH (a) OPTIONAL MATCH (a)<-[r]-(b) RETURN labels(a) AS a, type(r) AS t",
    "MATCH (a)-[r]->(a) RETURN count(r) AS c",
    "MATCH (n) RETURN properties(n) AS p",
    "MATCH ()-[r]->() RETURN properties(r) AS p",
    "MATCH (n) WHERE n.k = 1 RETURN count(*) AS c",
    "MATCH (n) RETURN n.w AS w, size(toString(n.big)) AS s",
    "MATCH (a)-[r]->(b)-[q]->(c) RETURN type(r) AS r, type(q) AS q",
    "MATCH (a)-[r]->(b)<-[q]-(c) RETURN type(r) AS r, type(q) AS q",
    "MATCH (n) RETURN keys(n) AS k ORDER BY size(keys(n)), k[0]",
    "MATCH (a), (b) WHERE (a)-->(b) RETURN count(*) AS c",
];

fn run_query(db: &Db, q: &str) -> Result<Vec<CRow>, String> {
    catch(|| -> Result<Vec<CRow>, String> {
        let p = prepare(q).map_err(|e| format!("compile: {e}"))?;
        let snap = db.snapshot();
        let params = Params::new();
        let mut out = Vec::new();
        for row in p.execute_streaming(&snap, &params) {
            let row = row.map_err(|e| format!("runtime: {e}"))?;
            out.push(row.columns().iter().map(|(_, v)| canon(&snap, v)).collect::<CRow>());
        }
        out.sort_by(|a, b| format!("{a:?}").cmp(&format!("{b:?}")));
        Ok(out)
    })
    .unwrap_or_else(|p| Err(p))
}

fn build_bulk(base: &Path, inp: &Input) -> Result<(), String> {
    let nodes: Vec<BulkNode> = inp.nodes.iter().map(|n| BulkNode { external_id: n.ext, label: n.label.to_string(), properties: n.props.iter().map(|(k, v)| (k.to_string(), v.clone())).collect() }).collect();
    let edges: Vec<BulkEdge> = inp.edges.iter().map(|e| BulkEdge { src_external_id: inp.nodes[e.s].ext, rel_type: e.t.to_string(), dst_external_id: inp.nodes[e.d].ext, properties: e.props.iter().map(|(k, v)| (k.to_string(), v.clone())).collect() }).collect();
    catch(|| nervusdb::bulkload(base, nodes, edges).map_err(|e| format!("bulkload: {e}"))).and_then(|r| r)
}

fn build_txn(db: &Db, inp: &Input) -> Result<(), String> {
    catch(|| -> Result<(), String> {
        let mut tx = db.begin_write();
        let mut iids = Vec::new();
        for n in &inp.nodes {
            let l = tx.get_or_create_label(n.label).map_err(|e| e.to_string())?;
            let iid = tx.create_node(n.ext, l).map_err(|e| e.to_string())?;
            for (k, v) in &n.props {
                tx.set_node_property(iid, k.to_string(), v.clone()).map_err(|e| e.to_string())?;
            }
            iids.push(iid);
        }
        for e in &inp.edges {
            let r = tx.get_or_create_rel_type(e.t).map_err(|e| e.to_string())?;
            tx.create_edge(iids[e.s], r, iids[e.d]);
            for (k, v) in &e.props {
                tx.set_edge_property(iids[e.s], r, iids[e.d], k.to_string(), v.clone()).map_err(|e| e.to_string())?;
            }
        }
        tx.commit().map_err(|e| format!("commit: {e}"))
    })
    .and_then(|r| r)
}

fn iid_of(db: &Db, ext: u64) -> Option<u32> {
    use nervusdb::GraphSnapshot;
    let snap = db.snapshot();
    snap.nodes().find(|i| snap.resolve_external(*i) == Some(ext))
}

/// The same follow-up transaction on both databases (a bulk-loaded database must keep working).
fn follow_up(db: &Db, inp: &Input) -> Result<(), String> {
    catch(|| -> Result<(), String> {
        let first = inp.nodes.first().and_then(|n| iid_of(db, n.ext));
        let mut tx = db.begin_write();
        let l = tx.get_or_create_label("B").map_err(|e| e.to_string())?;
        let new = tx.create_node(5000, l).map_err(|e| e.to_string())?;
        tx.set_node_property(new, "k".into(), PropertyValue::Int(9)).map_err(|e| e.to_string())?;
        if let Some(a) = first {
            let r = tx.get_or_create_rel_type("R").map_err(|e| e.to_string())?;
            tx.create_edge(a, r, new);
            tx.create_edge(new, r, a);
            tx.set_node_property(a, "k".into(), PropertyValue::Int(2)).map_err(|e| e.to_string())?;
            if let Some(e) = inp.edges.first() {
                let s = if e.s == 0 { a } else { return tx.commit().map_err(|e| e.to_string()) };
                if let Some(d) = iid_of(db, inp.nodes[e.d].ext) {
                    let t = tx.get_or_create_rel_type(e.t).map_err(|e| e.to_string())?;
                    tx.tombstone_edge(s, t, d);
                }
            }
        }
        tx.commit().map_err(|e| format!("commit: {e}"))
    })
    .and_then(|r| r)
}

fn compare(stage: &str, a: &Db, b: &Db, spec: &DumpSpec) -> Option<(String, String)> {
    let da = match catch(|| a.snapshot()) {
        Ok(s) => dump_snapshot(&s, spec),
        Err(p) => return Some((format!("{stage}:bulk_snapshot_panics"), p)),
    };
    let db_ = match catch(|| b.snapshot()) {
        Ok(s) => dump_snapshot(&s, spec),
        Err(p) => return Some(("harness".into(), p)),
    };
    if let Some((c, d)) = db_.diff(&da) {
        return Some((format!("{stage}:dump:{}", c.trim_start_matches("diff:")), format!("transactional vs bulk: {d}")));
    }
    for q in QUERIES {
        let ra = run_query(a, q);
        let rb = run_query(b, q);
        if ra != rb {
            let class = match (&ra, &rb) {
                (Err(e), Ok(_)) if e.starts_with("PANIC") => format!("{stage}:query_panics_on_bulk"),
                (Err(_), Ok(_)) => format!("{stage}:query_fails_on_bulk"),
                _ => format!("{stage}:rows_differ"),
            };
            let show = |r: &Result<Vec<CRow>, String>| match r {
                Ok(rows) => truncate(&show_rows(rows), 300),
                Err(e) => truncate(e, 300),
            };
            return Some((class, format!("{q}: bulk {} / transactional {}", show(&ra), show(&rb))));
        }
    }
    None
}

fn run_input(inp: &Input, dir: &Path) -> (Option<(String, String)>, u64) {
    let _ = std::fs::remove_dir_all(dir);
    let _ = std::fs::create_dir_all(dir);
    let spec = DumpSpec { prop_keys: vec!["k".into(), "w".into(), "big".into()], rel_types: vec!["R".into(), "S".into(), "A".into()], index_probes: Vec::new(), max_iid_probe: 6 };
    let bb = dir.join("bulk");
    let tb = dir.join("txn");
    if let Err(e) = build_bulk(&bb, inp) {
        let class = if e.starts_with("PANIC") { "bulkload_panics" } else { "bulkload_fails" };
        return (Some((class.into(), e)), 0);
    }
    let mut a = match catch(|| Db::open(&bb)) {
        Ok(Ok(d)) => d,
        Ok(Err(e)) => return (Some(("bulk_db_does_not_open".into(), e.to_string())), 0),
        Err(p) => return (Some(("bulk_db_open_panics".into(), p)), 0),
    };
    let mut b = Db::open(&tb).expect("open");
    if let Err(e) = build_txn(&b, inp) {
        return (Some(("harness".into(), format!("transactional build failed: {e}"))), 0);
    }
    let mut cmp = 0u64;
    macro_rules! stage {
        ($name:expr) => {
            cmp += 1;
            if let Some(v) = compare($name, &a, &b, &spec) {
                return (Some(v), cmp);
            }
        };
    }
    stage!("fresh");
    // reopen both
    drop(a);
    drop(b);
    a = match catch(|| Db::open(&bb)) {
        Ok(Ok(d)) => d,
        Ok(Err(e)) => return (Some(("reopen:bulk_db_does_not_open".into(), e.to_string())), cmp),
        Err(p) => return (Some(("reopen:bulk_db_open_panics".into(), p)), cmp),
    };
    b = match catch(|| Db::open(&tb)) {
        Ok(Ok(d)) => d,
        Ok(Err(e)) => return (Some(("reference:transactional_db_does_not_reopen".into(), e.to_string())), cmp),
        Err(p) => return (Some(("reference:transactional_db_reopen_panics".into(), p)), cmp),
    };
    stage!("reopen");
    // the same follow-up transaction on both
    let fa = follow_up(&a, inp);
    let fb = follow_up(&b, inp);
    if fa.is_err() != fb.is_err() {
        return (Some(("follow_up:outcome_differs".into(), format!("bulk {fa:?} / transactional {fb:?}"))), cmp);
    }
    stage!("follow_up");
    let ca = catch(|| a.compact().map_err(|e| e.to_string())).and_then(|r| r);
    let cb = catch(|| b.compact().map_err(|e| e.to_string())).and_then(|r| r);
    if ca.is_err() != cb.is_err() {
        return (Some(("compact:outcome_differs".into(), format!("bulk {ca:?} / transactional {cb:?}"))), cmp);
    }
    stage!("compact");
    drop(a);
    drop(b);
    a = match catch(|| Db::open(&bb)) {
        Ok(Ok(d)) => d,
        Ok(Err(e)) => return (Some(("reopen2:bulk_db_does_not_open".into(), e.to_string())), cmp),
        Err(p) => return (Some(("reopen2:bulk_db_open_panics".into(), p)), cmp),
    };
    b = match catch(|| Db::open(&tb)) {
        Ok(Ok(d)) => d,
        Ok(Err(e)) => return (Some(("reference:transactional_db_does_not_reopen".into(), e.to_string())), cmp),
        Err(p) => return (Some(("reference:transactional_db_reopen_panics".into(), p)), cmp),
    };
    stage!("reopen2");
    (None, cmp)
}

pub fn c30(tier: Tier) -> i32 {
    let rep = Report::new("C30", tier);
    rep.rule("every input of two families: (1) 0..=3 nodes with fixed labels and every multiset of at most E relationships over all (start, type in {R,S}, end) triples incl. self-loops, with multiplicity up to 2 (parallel relationships); (2) two nodes x every combination of labels {A, B, R (also a relationship type)}, node property sets (Int, String, Float, Bool, List, Null, Map, DateTime, Blob, a 24 KiB multi-page String), relationship property sets and relationship type {R, A (also a label)} on five shapes (no relationship, one, a 2-cycle, self-loop + second type, the same relationship given twice with different property maps); external ids are deliberately not ascending and include 0 (0, 3, 900). Each input is loaded by nervusdb::bulkload into one database and by ONE committed transaction (same order) into another; oracle at five stages (fresh, after reopen, after the same follow-up transaction on both, after compaction, after a second reopen): full dumps through every read interface are equal, and 22 queries (outgoing / incoming / undirected / typed / variable-length / OPTIONAL / properties / keys / pattern predicate) return equal row multisets or the same failure; non-trivial = inputs with at least one relationship or property");
    let e = tier.pick(2usize, 3);
    let mut inputs = shape_inputs(e);
    let n_shape = inputs.len();
    inputs.extend(attribute_inputs(tier == Tier::Thorough));
    rep.set("inputs", json!({"shape_family": n_shape, "attribute_family": inputs.len() - n_shape, "max_relationships_shape_family": e}));
    let results: Vec<(usize, Option<(String, String)>, u64)> = inputs
        .par_iter()
        .enumerate()
        .map_init(
            || scratch_dir("bulk"),
            |dir, (i, inp)| {
                let (v, cmp) = run_input(inp, dir);
                (i, v, cmp)
            },
        )
        .collect();
    for (i, v, cmp) in results {
        let inp = &inputs[i];
        rep.add_states(cmp.max(1));
        rep.add_transitions(cmp * (QUERIES.len() as u64 + 1));
        rep.add_traces(1);
        rep.add_evals(cmp * QUERIES.len() as u64);
        if !inp.edges.is_empty() || inp.nodes.iter().any(|n| !n.props.is_empty()) {
            rep.add_nontrivial(1);
        }
        match v {
            None => rep.outcome("equal"),
            Some((class, detail)) => {
                rep.outcome(&class);
                rep.violation(Violation { class, kinds: inp.kinds(), replay: json!({"engine": "bulk", "input": inp.show()}), detail });
            }
        }
    }
    if let Some(s) = inputs.get(inputs.len() / 3) {
        rep.sample(s.show());
    }
    rep.finish()
}
