//! Running enumerated inputs in resource-limited child processes (crash / abort / OOM isolation).
use std::process::{Command, Stdio};

/// Applies address-space / stack / CPU limits to the current (child) process.
pub fn apply_limits(as_bytes: u64, cpu_secs: u64) {
    unsafe {
        if as_bytes > 0 {
            let lim = libc::rlimit { rlim_cur: as_bytes, rlim_max: as_bytes };
            libc::setrlimit(libc::RLIMIT_AS, &lim);
        }
        if cpu_secs > 0 {
            let lim = libc::rlimit { rlim_cur: cpu_secs, rlim_max: cpu_secs + 5 };
            libc::setrlimit(libc::RLIMIT_CPU, &lim);
        }
        let core = libc::rlimit { rlim_cur: 0, rlim_max: 0 };
        libc::setrlimit(libc::RLIMIT_CORE, &core);
    }
}

#[derive(Debug, Clone)]
pub struct ChildOutcome {
    /// lines printed by the child that start with "BAD " (index + message)
    pub bad: Vec<(u64, String)>,
    /// abnormal termination: (first index not known to be finished, description)
    pub crashed: Option<(u64, String)>,
    /// number of inputs the child reported as done
    pub done: u64,
    /// lines starting with "INFO "
    pub info: Vec<String>,
}

/// Runs `verif <check> --child <family> <start> <end>` and parses its protocol:
///   "AT <i>"   progress: input i is about to be processed
///   "BAD <i> <msg>"  a non-crash violation on input i
///   "INFO <text>"
///   "DONE <n>" clean end
pub fn run_child(check: &str, family: &str, start: u64, end: u64, wall_secs: u64) -> ChildOutcome {
    let exe = std::env::current_exe().expect("current exe");
    let mut cmd = Command::new("timeout");
    cmd.arg("-s").arg("KILL").arg(format!("{wall_secs}")).arg(exe).arg(check).arg("--child").arg(family).arg(start.to_string()).arg(end.to_string());
    cmd.stdin(Stdio::null()).stdout(Stdio::piped()).stderr(Stdio::null());
    let out = cmd.output().expect("spawn child");
    let text = String::from_utf8_lossy(&out.stdout);
    let mut oc = ChildOutcome { bad: Vec::new(), crashed: None, done: 0, info: Vec::new() };
    let mut at = start;
    let mut clean = false;
    for line in text.lines() {
        if let Some(r) = line.strip_prefix("AT ") {
            at = r.trim().parse().unwrap_or(at);
        } else if let Some(r) = line.strip_prefix("BAD ") {
            let mut it = r.splitn(2, ' ');
            let i = it.next().and_then(|s| s.parse().ok()).unwrap_or(at);
            oc.bad.push((i, it.next().unwrap_or("").to_string()));
        } else if let Some(r) = line.strip_prefix("INFO ") {
            oc.info.push(r.to_string());
        } else if let Some(r) = line.strip_prefix("DONE ") {
            oc.done = r.trim().parse().unwrap_or(0);
            clean = true;
        }
    }
    if !clean {
        use std::os::unix::process::ExitStatusExt;
        let how = match (out.status.code(), out.status.signal()) {
            (Some(137), _) | (_, Some(9)) => "killed (wall-clock cap or OOM kill)".to_string(),
            (Some(134), _) | (_, Some(6)) => "SIGABRT (abort: allocation failure, stack overflow guard or double panic)".to_string(),
            (Some(139), _) | (_, Some(11)) => "SIGSEGV (stack overflow)".to_string(),
            (_, Some(24)) | (Some(152), _) => "SIGXCPU (CPU limit)".to_string(),
            (Some(c), _) => format!("exit code {c}"),
            (None, Some(s)) => format!("signal {s}"),
            _ => "unknown".to_string(),
        };
        oc.crashed = Some((at, how));
        oc.done = at.saturating_sub(start);
    }
    oc
}

/// Sweeps [0,total) in chunks over `workers` parallel children; after a crash the sweep resumes
/// behind the crashing input.  Returns (bad, crashes, inputs_done).
pub fn sweep(check: &str, family: &str, total: u64, chunk: u64, wall_secs: u64) -> (Vec<(u64, String)>, Vec<(u64, String)>, u64) {
    use rayon::prelude::*;
    let chunks: Vec<(u64, u64)> = (0..total.div_ceil(chunk.max(1))).map(|c| (c * chunk, ((c + 1) * chunk).min(total))).collect();
    let results: Vec<(Vec<(u64, String)>, Vec<(u64, String)>, u64)> = chunks
        .par_iter()
        .map(|&(s, e)| {
            let mut bad = Vec::new();
            let mut crashes = Vec::new();
            let mut done = 0u64;
            let mut cur = s;
            while cur < e {
                let oc = run_child(check, family, cur, e, wall_secs);
                bad.extend(oc.bad);
                match oc.crashed {
                    None => {
                        done += e - cur;
                        break;
                    }
                    Some((at, how)) => {
                        done += at.saturating_sub(cur);
                        crashes.push((at, how));
                        if crashes.len() > 20 {
                            break;
                        }
                        cur = at + 1;
                    }
                }
            }
            (bad, crashes, done)
        })
        .collect();
    let mut bad = Vec::new();
    let mut crashes = Vec::new();
    let mut done = 0;
    for (b, c, d) in results {
        bad.extend(b);
        crashes.extend(c);
        done += d;
    }
    (bad, crashes, done)
}
