//! Storage-level operation alphabet, driver of the real database, reference graph model, dump.
use crate::common::catch;
use nervusdb::{Db, GraphSnapshot, PropertyValue};
use nervusdb_query::WriteableGraph;
use serde_json::{Value, json};
use std::collections::{BTreeMap, BTreeSet};
use std::path::{Path, PathBuf};

pub const LONG_KEY_LEN: usize = 2000;

pub fn long_key() -> String {
    "K".repeat(LONG_KEY_LEN)
}

#[derive(Clone, Debug, PartialEq)]
pub enum Val {
    I(i64),
    S(&'static str),
    F(f64),
    B(bool),
}

impl Val {
    pub fn pv(&self) -> PropertyValue {
        match self {
            Val::I(i) => PropertyValue::Int(*i),
            Val::S(s) => PropertyValue::String(s.to_string()),
            Val::F(f) => PropertyValue::Float(*f),
            Val::B(b) => PropertyValue::Bool(*b),
        }
    }
    pub fn show(&self) -> String {
        pv_show(&self.pv())
    }
}

pub fn pv_show(v: &PropertyValue) -> String {
    format!("{v:?}")
}

#[derive(Clone, Debug, PartialEq)]
pub enum Op {
    CreateNode { e: u64, labels: Vec<&'static str> },
    /// Create `n` unlabeled-by-extra nodes with external ids base+1..=base+n in one transaction.
    CreateNodes { base: u64, n: u32 },
    AddLabel { e: u64, l: &'static str },
    RemoveLabel { e: u64, l: &'static str },
    CreateEdge { s: u64, t: &'static str, d: u64 },
    DeleteEdge { s: u64, t: &'static str, d: u64 },
    /// Delete then re-create the same relationship inside one transaction.
    ReplaceEdge { s: u64, t: &'static str, d: u64 },
    /// DETACH semantics: all incident relationships are tombstoned, then the node.
    DeleteNode { e: u64 },
    /// Only the node is tombstoned (what ndb_txn_tombstone_node does); its relationships must
    /// disappear with it all the same.
    TombstoneNodeOnly { e: u64 },
    SetNodeProp { e: u64, k: &'static str, v: Val },
    RemoveNodeProp { e: u64, k: &'static str },
    SetEdgeProp { s: u64, t: &'static str, d: u64, k: &'static str, v: Val },
    RemoveEdgeProp { s: u64, t: &'static str, d: u64, k: &'static str },
    SetVector { e: u64, v: [i8; 2] },
    /// a vector of ANOTHER dimension than the ones SetVector stores
    SetVector3 { e: u64, v: [i8; 3] },
    /// Several write operations in one transaction.
    Tx(Vec<Op>),
    /// The same writes, but the transaction is dropped instead of committed.
    Abandon(Vec<Op>),
    Compact,
    Checkpoint,
    CreateIndex { l: &'static str, k: &'static str },
    /// `Db::close` then open.
    CloseOpen,
    /// Drop the handle without close, then open.
    DropOpen,
    /// close, vacuum, open
    Vacuum,
    /// close, backup, restore into a fresh path, continue on the restored copy
    BackupRestore,
    /// backup, two more transactions, restore over the database's own files
    BackupGrowRestoreInPlace,
}

fn key_name(k: &str) -> String {
    if k.len() > 40 { format!("{}*{}", &k[..1], k.len()) } else { k.to_string() }
}

impl Op {
    pub fn kind(&self) -> String {
        match self {
            Op::CreateNode { labels, .. } => format!("CreateNode{}", labels.len()),
            Op::CreateNodes { n, .. } => format!("CreateNodes{n}"),
            Op::AddLabel { .. } => "AddLabel".into(),
            Op::RemoveLabel { .. } => "RemoveLabel".into(),
            Op::CreateEdge { .. } => "CreateEdge".into(),
            Op::DeleteEdge { .. } => "DeleteEdge".into(),
            Op::ReplaceEdge { .. } => "ReplaceEdge".into(),
            Op::DeleteNode { .. } => "DeleteNode".into(),
            Op::TombstoneNodeOnly { .. } => "TombstoneNodeOnly".into(),
            Op::SetNodeProp { .. } => "SetNodeProp".into(),
            Op::RemoveNodeProp { .. } => "RemoveNodeProp".into(),
            Op::SetEdgeProp { .. } => "SetEdgeProp".into(),
            Op::RemoveEdgeProp { .. } => "RemoveEdgeProp".into(),
            Op::SetVector { .. } => "SetVector".into(),
            Op::SetVector3 { .. } => "SetVector3".into(),
            Op::Tx(ops) => format!("Tx[{}]", ops.iter().map(|o| o.kind()).collect::<Vec<_>>().join("+")),
            Op::Abandon(ops) => format!("Abandon[{}]", ops.iter().map(|o| o.kind()).collect::<Vec<_>>().join("+")),
            Op::Compact => "Compact".into(),
            Op::Checkpoint => "Checkpoint".into(),
            Op::CreateIndex { .. } => "CreateIndex".into(),
            Op::CloseOpen => "CloseOpen".into(),
            Op::DropOpen => "DropOpen".into(),
            Op::Vacuum => "Vacuum".into(),
            Op::BackupRestore => "BackupRestore".into(),
            Op::BackupGrowRestoreInPlace => "BackupGrowRestoreInPlace".into(),
        }
    }
    pub fn show(&self) -> String {
        match self {
            Op::CreateNode { e, labels } => format!("CreateNode({e}:{})", labels.join(":")),
            Op::CreateNodes { base, n } => format!("CreateNodes({base}+1..{n})"),
            Op::AddLabel { e, l } => format!("AddLabel({e},{l})"),
            Op::RemoveLabel { e, l } => format!("RemoveLabel({e},{l})"),
            Op::CreateEdge { s, t, d } => format!("CreateEdge({s}-{t}->{d})"),
            Op::DeleteEdge { s, t, d } => format!("DeleteEdge({s}-{t}->{d})"),
            Op::ReplaceEdge { s, t, d } => format!("ReplaceEdge({s}-{t}->{d})"),
            Op::DeleteNode { e } => format!("DeleteNode({e})"),
            Op::TombstoneNodeOnly { e } => format!("TombstoneNodeOnly({e})"),
            Op::SetNodeProp { e, k, v } => format!("SetNodeProp({e}.{}={})", key_name(k), v.show()),
            Op::RemoveNodeProp { e, k } => format!("RemoveNodeProp({e}.{})", key_name(k)),
            Op::SetEdgeProp { s, t, d, k, v } => format!("SetEdgeProp({s}-{t}->{d}.{}={})", key_name(k), v.show()),
            Op::RemoveEdgeProp { s, t, d, k } => format!("RemoveEdgeProp({s}-{t}->{d}.{})", key_name(k)),
            Op::SetVector { e, v } => format!("SetVector({e},{v:?})"),
            Op::Tx(ops) => format!("Tx[{}]", ops.iter().map(|o| o.show()).collect::<Vec<_>>().join("; ")),
            Op::Abandon(ops) => format!("Abandon[{}]", ops.iter().map(|o| o.show()).collect::<Vec<_>>().join("; ")),
            other => other.kind(),
        }
    }
    pub fn is_maintenance(&self) -> bool {
        matches!(
            self,
            Op::Compact | Op::Checkpoint | Op::CreateIndex { .. } | Op::CloseOpen | Op::DropOpen | Op::Vacuum | Op::BackupRestore | Op::BackupGrowRestoreInPlace
        )
    }
}

pub fn show_history(h: &[Op]) -> Vec<String> {
    h.iter().map(|o| o.show()).collect()
}
/// Step kinds of a history; multi-operation transactions are flattened between bracket tokens.
pub fn kinds(h: &[Op]) -> Vec<String> {
    let mut out = Vec::new();
    for o in h {
        match o {
            Op::Tx(ops) => {
                out.push("Tx<".to_string());
                out.extend(ops.iter().map(|x| x.kind()));
                out.push(">".to_string());
            }
            Op::Abandon(ops) => {
                out.push("Abandon<".to_string());
                out.extend(ops.iter().map(|x| x.kind()));
                out.push(">".to_string());
            }
            other => out.push(other.kind()),
        }
    }
    out
}

// ---------------------------------------------------------------------------------------------
// Reference model
// ---------------------------------------------------------------------------------------------

#[derive(Clone, Debug, Default, PartialEq)]
pub struct MNode {
    pub iid: u32,
    pub labels: BTreeSet<String>,
    pub props: BTreeMap<String, String>,
}

#[derive(Clone, Debug, Default, PartialEq)]
pub struct MEdge {
    pub count: u32,
    pub props: BTreeMap<String, String>,
}

pub type EKey = (u64, String, u64);

#[derive(Clone, Debug, Default, PartialEq)]
pub struct GraphModel {
    pub nodes: BTreeMap<u64, MNode>,
    pub edges: BTreeMap<EKey, MEdge>,
    pub dead: BTreeMap<u64, u32>,
    pub next_iid: u32,
    pub vectors: BTreeMap<u64, [i8; 2]>,
    pub indexes: BTreeSet<(String, String)>,
}

impl GraphModel {
    /// Is `op` meaningful in this state?  (Histories with meaningless steps are not generated.)
    pub fn enabled(&self, op: &Op) -> bool {
        match op {
            Op::CreateNode { e, .. } => !self.nodes.contains_key(e) && !self.dead.contains_key(e),
            Op::CreateNodes { base, n } => (1..=*n as u64).all(|i| !self.nodes.contains_key(&(base + i)) && !self.dead.contains_key(&(base + i))),
            Op::AddLabel { e, l } => self.nodes.get(e).is_some_and(|n| !n.labels.contains(*l)),
            Op::RemoveLabel { e, l } => self.nodes.get(e).is_some_and(|n| n.labels.contains(*l)),
            Op::CreateEdge { s, d, .. } => self.nodes.contains_key(s) && self.nodes.contains_key(d),
            Op::DeleteEdge { s, t, d } | Op::ReplaceEdge { s, t, d } => self.edges.contains_key(&(*s, t.to_string(), *d)),
            Op::DeleteNode { e } | Op::TombstoneNodeOnly { e } => self.nodes.contains_key(e),
            Op::SetNodeProp { e, .. } => self.nodes.contains_key(e),
            Op::RemoveNodeProp { e, k } => self.nodes.get(e).is_some_and(|n| n.props.contains_key(*k)),
            Op::SetEdgeProp { s, t, d, .. } => self.edges.contains_key(&(*s, t.to_string(), *d)),
            Op::RemoveEdgeProp { s, t, d, k } => self.edges.get(&(*s, t.to_string(), *d)).is_some_and(|e| e.props.contains_key(*k)),
            Op::SetVector { e, .. } | Op::SetVector3 { e, .. } => self.nodes.contains_key(e),
            Op::Tx(ops) | Op::Abandon(ops) => {
                let mut m = self.clone();
                for o in ops {
                    if !m.enabled(o) {
                        return false;
                    }
                    m.apply(o);
                }
                true
            }
            Op::CreateIndex { l, k } => !self.indexes.contains(&(l.to_string(), k.to_string())),
            _ => true,
        }
    }

    pub fn apply(&mut self, op: &Op) {
        match op {
            Op::CreateNode { e, labels } => {
                let iid = self.next_iid;
                self.next_iid += 1;
                self.nodes.insert(*e, MNode { iid, labels: labels.iter().map(|s| s.to_string()).collect(), props: BTreeMap::new() });
            }
            Op::CreateNodes { base, n } => {
                for i in 1..=*n as u64 {
                    let iid = self.next_iid;
                    self.next_iid += 1;
                    self.nodes.insert(base + i, MNode { iid, labels: ["N".to_string()].into_iter().collect(), props: BTreeMap::new() });
                }
            }
            Op::AddLabel { e, l } => {
                self.nodes.get_mut(e).unwrap().labels.insert(l.to_string());
            }
            Op::RemoveLabel { e, l } => {
                self.nodes.get_mut(e).unwrap().labels.remove(*l);
            }
            Op::CreateEdge { s, t, d } => {
                self.edges.entry((*s, t.to_string(), *d)).or_default().count += 1;
            }
            Op::DeleteEdge { s, t, d } => {
                self.edges.remove(&(*s, t.to_string(), *d));
            }
            Op::ReplaceEdge { s, t, d } => {
                self.edges.insert((*s, t.to_string(), *d), MEdge { count: 1, props: BTreeMap::new() });
            }
            Op::DeleteNode { e } | Op::TombstoneNodeOnly { e } => {
                let n = self.nodes.remove(e).unwrap();
                self.dead.insert(*e, n.iid);
                self.edges.retain(|k, _| k.0 != *e && k.2 != *e);
                self.vectors.remove(e);
            }
            Op::SetNodeProp { e, k, v } => {
                self.nodes.get_mut(e).unwrap().props.insert(k.to_string(), v.show());
            }
            Op::RemoveNodeProp { e, k } => {
                self.nodes.get_mut(e).unwrap().props.remove(*k);
            }
            Op::SetEdgeProp { s, t, d, k, v } => {
                self.edges.get_mut(&(*s, t.to_string(), *d)).unwrap().props.insert(k.to_string(), v.show());
            }
            Op::RemoveEdgeProp { s, t, d, k } => {
                self.edges.get_mut(&(*s, t.to_string(), *d)).unwrap().props.remove(*k);
            }
            Op::SetVector { e, v } => {
                self.vectors.insert(*e, *v);
            }
            Op::SetVector3 { .. } => {}
            Op::Tx(ops) => {
                for o in ops {
                    self.apply(o);
                }
            }
            Op::Abandon(ops) => {
                // No logical effect.  Internal ids handed out by an abandoned transaction are
                // not consumed (they are assigned at commit).
                let _ = ops;
            }
            Op::CreateIndex { l, k } => {
                self.indexes.insert((l.to_string(), k.to_string()));
            }
            _ => {}
        }
    }
}

// ---------------------------------------------------------------------------------------------
// Dump of the real database through every read interface
// ---------------------------------------------------------------------------------------------

#[derive(Clone, Debug, Default, PartialEq, Eq)]
pub struct NodeRec {
    pub iid: u32,
    pub labels: BTreeSet<String>,
    pub primary: Option<String>,
    pub p1: BTreeMap<String, String>,
    pub pm: BTreeMap<String, String>,
}

#[derive(Clone, Debug, Default, PartialEq, Eq)]
pub struct Dump {
    pub nodes: BTreeMap<u64, NodeRec>,
    pub eo: BTreeMap<EKey, u32>,
    pub ei: BTreeMap<EKey, u32>,
    pub eot: BTreeMap<EKey, u32>,
    pub eit: BTreeMap<EKey, u32>,
    pub ep1: BTreeMap<EKey, BTreeMap<String, String>>,
    pub epm: BTreeMap<EKey, BTreeMap<String, String>>,
    pub idx: BTreeMap<String, Vec<u64>>,
    pub vec: BTreeMap<String, Vec<(u64, String)>>,
    pub tomb_flagged: BTreeSet<u32>,
    pub problems: Vec<String>,
}

pub struct DumpSpec {
    pub prop_keys: Vec<String>,
    pub rel_types: Vec<String>,
    /// (label, key, value) probes for `lookup_index`
    pub index_probes: Vec<(String, String, PropertyValue)>,
    pub max_iid_probe: u32,
}

impl Default for DumpSpec {
    fn default() -> Self {
        DumpSpec {
            prop_keys: vec!["k".into(), long_key(), "big".into()],
            rel_types: vec!["R".into(), "S".into()],
            index_probes: Vec::new(),
            max_iid_probe: 8,
        }
    }
}

pub fn dump_snapshot<S: GraphSnapshot>(snap: &S, spec: &DumpSpec) -> Dump {
    let mut d = Dump::default();
    let r = catch(|| {
        let mut d = Dump::default();
        let ids: Vec<u32> = snap.nodes().collect();
        let mut ext_of: BTreeMap<u32, u64> = BTreeMap::new();
        for &iid in &ids {
            let ext = match snap.resolve_external(iid) {
                Some(e) => e,
                None => {
                    d.problems.push(format!("node iid {iid} has no external id"));
                    continue;
                }
            };
            if ext_of.values().any(|&e| e == ext) {
                d.problems.push(format!("external id {ext} listed twice"));
            }
            ext_of.insert(iid, ext);
            let mut rec = NodeRec { iid, ..Default::default() };
            if let Some(ls) = snap.resolve_node_labels(iid) {
                for l in ls {
                    if l == u32::MAX {
                        continue; // the "unlabeled" sentinel used by the query layer
                    }
                    match snap.resolve_label_name(l) {
                        Some(n) => {
                            rec.labels.insert(n);
                        }
                        None => d.problems.push(format!("label id {l} of node {ext} has no name")),
                    }
                }
            }
            rec.primary = snap.node_label(iid).filter(|l| *l != u32::MAX).and_then(|l| snap.resolve_label_name(l));
            for k in &spec.prop_keys {
                if let Some(v) = snap.node_property(iid, k) {
                    rec.p1.insert(k.clone(), pv_show(&v));
                }
            }
            if let Some(m) = snap.node_properties(iid) {
                for (k, v) in m {
                    rec.pm.insert(k, pv_show(&v));
                }
            }
            if snap.is_tombstoned_node(iid) {
                d.problems.push(format!("node {ext} listed by nodes() but flagged tombstoned"));
            }
            d.nodes.insert(ext, rec);
        }
        for iid in 0..spec.max_iid_probe {
            if snap.is_tombstoned_node(iid) {
                d.tomb_flagged.insert(iid);
            }
        }
        let resolve = |iid: u32, d: &mut Dump| -> u64 {
            match snap.resolve_external(iid) {
                Some(e) => e,
                None => {
                    d.problems.push(format!("edge endpoint iid {iid} unresolvable"));
                    u64::MAX
                }
            }
        };
        let rel_name = |r: u32| snap.resolve_rel_type_name(r).unwrap_or_else(|| format!("#{r}"));
        for &iid in &ids {
            for e in snap.neighbors(iid, None) {
                let k = (resolve(e.src, &mut d), rel_name(e.rel), resolve(e.dst, &mut d));
                *d.eo.entry(k).or_insert(0) += 1;
            }
            for e in snap.incoming_neighbors(iid, None) {
                let k = (resolve(e.src, &mut d), rel_name(e.rel), resolve(e.dst, &mut d));
                *d.ei.entry(k).or_insert(0) += 1;
            }
            for t in &spec.rel_types {
                if let Some(rid) = snap.resolve_rel_type_id(t) {
                    for e in snap.neighbors(iid, Some(rid)) {
                        let k = (resolve(e.src, &mut d), rel_name(e.rel), resolve(e.dst, &mut d));
                        *d.eot.entry(k).or_insert(0) += 1;
                    }
                    for e in snap.incoming_neighbors(iid, Some(rid)) {
                        let k = (resolve(e.src, &mut d), rel_name(e.rel), resolve(e.dst, &mut d));
                        *d.eit.entry(k).or_insert(0) += 1;
                    }
                }
            }
        }
        // relationship properties for every relationship seen in either direction
        let mut seen: BTreeMap<EKey, nervusdb::EdgeKey> = BTreeMap::new();
        for &iid in &ids {
            for e in snap.neighbors(iid, None).chain(snap.incoming_neighbors(iid, None)) {
                let k = (resolve(e.src, &mut d), rel_name(e.rel), resolve(e.dst, &mut d));
                seen.insert(k, e);
            }
        }
        for (k, e) in seen {
            let mut p1 = BTreeMap::new();
            for key in &spec.prop_keys {
                if let Some(v) = snap.edge_property(e, key) {
                    p1.insert(key.clone(), pv_show(&v));
                }
            }
            d.ep1.insert(k.clone(), p1);
            let mut pm = BTreeMap::new();
            if let Some(m) = snap.edge_properties(e) {
                for (kk, v) in m {
                    pm.insert(kk, pv_show(&v));
                }
            }
            d.epm.insert(k, pm);
        }
        for (l, k, v) in &spec.index_probes {
            let name = format!("{l}.{}={}", key_name(k), pv_show(v));
            if let Some(hits) = snap.lookup_index(l, k, v) {
                let mut ex: Vec<u64> = hits.iter().map(|&i| snap.resolve_external(i).unwrap_or(u64::MAX - i as u64)).collect();
                ex.sort();
                d.idx.insert(name, ex);
            }
        }
        d
    });
    match r {
        Ok(x) => d = x,
        Err(p) => d.problems.push(p),
    }
    d
}

impl Dump {
    pub fn to_json(&self) -> Value {
        let ek = |k: &EKey| format!("{}-{}->{}", k.0, k.1, k.2);
        let km = |m: &BTreeMap<String, String>| -> Value { json!(m.iter().map(|(k, v)| (key_name(k), v.clone())).collect::<BTreeMap<_, _>>()) };
        json!({
            "nodes": self.nodes.iter().map(|(e, n)| (e.to_string(), json!({"iid": n.iid, "labels": n.labels, "primary": n.primary, "p1": km(&n.p1), "pm": km(&n.pm)}))).collect::<BTreeMap<_,_>>(),
            "out": self.eo.iter().map(|(k, c)| (ek(k), *c)).collect::<BTreeMap<_,_>>(),
            "in": self.ei.iter().map(|(k, c)| (ek(k), *c)).collect::<BTreeMap<_,_>>(),
            "out_typed": self.eot.iter().map(|(k, c)| (ek(k), *c)).collect::<BTreeMap<_,_>>(),
            "in_typed": self.eit.iter().map(|(k, c)| (ek(k), *c)).collect::<BTreeMap<_,_>>(),
            "edge_p1": self.ep1.iter().map(|(k, m)| (ek(k), km(m))).collect::<BTreeMap<_,_>>(),
            "edge_pm": self.epm.iter().map(|(k, m)| (ek(k), km(m))).collect::<BTreeMap<_,_>>(),
            "idx": self.idx, "vec": self.vec, "tomb_flagged": self.tomb_flagged, "problems": self.problems,
        })
    }

    /// First difference between two dumps as (class, detail); `None` when equal.
    pub fn diff(&self, other: &Dump) -> Option<(String, String)> {
        if self.problems != other.problems {
            let p = self.problems.iter().chain(other.problems.iter()).find(|p| p.starts_with("PANIC")).cloned();
            let class = match p {
                Some(p) => format!("diff:{}", p.split(':').take(3).collect::<Vec<_>>().join(":")),
                None => "diff:problems".to_string(),
            };
            return Some((class, format!("{:?} vs {:?}", self.problems, other.problems)));
        }
        let a: BTreeSet<_> = self.nodes.keys().collect();
        let b: BTreeSet<_> = other.nodes.keys().collect();
        if a != b {
            let class = if b.is_superset(&a) { "diff:node_appears" } else if a.is_superset(&b) { "diff:node_disappears" } else { "diff:node_set" };
            return Some((class.into(), format!("nodes {a:?} vs {b:?}")));
        }
        for (e, n) in &self.nodes {
            let m = &other.nodes[e];
            if n.iid != m.iid {
                return Some(("diff:internal_id".into(), format!("node {e}: iid {} vs {}", n.iid, m.iid)));
            }
            if n.labels != m.labels {
                let class = if m.labels.is_subset(&n.labels) { "diff:label_lost" } else if n.labels.is_subset(&m.labels) { "diff:label_gained" } else { "diff:labels" };
                return Some((class.into(), format!("node {e}: labels {:?} vs {:?}", n.labels, m.labels)));
            }
            if n.primary != m.primary {
                return Some(("diff:primary_label".into(), format!("node {e}: primary {:?} vs {:?}", n.primary, m.primary)));
            }
            if n.p1 != m.p1 {
                return Some((prop_diff_class("diff:node_prop_single", &n.p1, &m.p1), format!("node {e}: {:?} vs {:?}", short_map(&n.p1), short_map(&m.p1))));
            }
            if n.pm != m.pm {
                return Some((prop_diff_class("diff:node_prop_map", &n.pm, &m.pm), format!("node {e}: {:?} vs {:?}", short_map(&n.pm), short_map(&m.pm))));
            }
        }
        for (name, x, y) in [("out", &self.eo, &other.eo), ("in", &self.ei, &other.ei), ("out_typed", &self.eot, &other.eot), ("in_typed", &self.eit, &other.eit)] {
            if x != y {
                let class = if y.keys().all(|k| x.contains_key(k)) && x.len() > y.len() {
                    "edge_disappears"
                } else if x.keys().all(|k| y.contains_key(k)) && y.len() > x.len() {
                    "edge_appears"
                } else if x.keys().eq(y.keys()) {
                    "edge_multiplicity"
                } else {
                    "edge_set"
                };
                return Some((format!("diff:{class}:{name}"), format!("{x:?} vs {y:?}")));
            }
        }
        if self.ep1 != other.ep1 {
            return Some(("diff:edge_prop_single".into(), format!("{:?} vs {:?}", self.ep1, other.ep1)));
        }
        if self.epm != other.epm {
            return Some(("diff:edge_prop_map".into(), format!("{:?} vs {:?}", self.epm, other.epm)));
        }
        if self.idx != other.idx {
            return Some(("diff:index_lookup".into(), format!("{:?} vs {:?}", self.idx, other.idx)));
        }
        if self.vec != other.vec {
            return Some(("diff:vector_search".into(), format!("{:?} vs {:?}", self.vec, other.vec)));
        }
        if self.tomb_flagged != other.tomb_flagged {
            return Some(("diff:tombstone_flags".into(), format!("{:?} vs {:?}", self.tomb_flagged, other.tomb_flagged)));
        }
        None
    }

    /// All disagreements with the reference model as (class, detail).
    pub fn check_model(&self, m: &GraphModel, check_iids: bool) -> Vec<(String, String)> {
        let mut out = Vec::new();
        for p in &self.problems {
            let class = if p.starts_with("PANIC") { format!("read_{}", p.split(':').take(3).collect::<Vec<_>>().join(":")) } else { "read_problem".to_string() };
            out.push((class, p.clone()));
        }
        for e in self.nodes.keys() {
            if !m.nodes.contains_key(e) {
                let class = if m.dead.contains_key(e) { "deleted_node_visible" } else { "unknown_node_visible" };
                out.push((class.into(), format!("node {e} is listed but the model has no such node")));
            }
        }
        for (e, mn) in &m.nodes {
            let Some(n) = self.nodes.get(e) else {
                out.push(("node_missing".into(), format!("node {e} missing")));
                continue;
            };
            if check_iids && n.iid != mn.iid {
                out.push(("internal_id_mismatch".into(), format!("node {e}: iid {} expected {}", n.iid, mn.iid)));
            }
            if n.labels != mn.labels {
                let class = if n.labels.is_subset(&mn.labels) { "label_missing" } else if mn.labels.is_subset(&n.labels) { "label_extra" } else { "labels_differ" };
                out.push((class.into(), format!("node {e}: labels {:?} expected {:?}", n.labels, mn.labels)));
            }
            let want_p1: BTreeMap<String, String> = mn.props.clone();
            if n.p1 != want_p1 {
                out.push((prop_diff_class("node_prop_single", &want_p1, &n.p1), format!("node {e}: single-property reads {:?} expected {:?}", short_map(&n.p1), short_map(&want_p1))));
            }
            if n.pm != mn.props {
                out.push((prop_diff_class("node_prop_map", &mn.props, &n.pm), format!("node {e}: whole-map read {:?} expected {:?}", short_map(&n.pm), short_map(&mn.props))));
            }
        }
        let want: BTreeMap<EKey, u32> = m.edges.iter().map(|(k, e)| (k.clone(), e.count)).collect();
        for (name, got) in [("out", &self.eo), ("in", &self.ei), ("out_typed", &self.eot), ("in_typed", &self.eit)] {
            if *got != want {
                let class = if got.keys().any(|k| !want.contains_key(k)) {
                    if got.keys().any(|k| !want.contains_key(k) && (!m.nodes.contains_key(&k.0) || !m.nodes.contains_key(&k.2))) { "dangling_edge" } else { "deleted_edge_visible" }
                } else if want.keys().any(|k| !got.contains_key(k)) {
                    "edge_missing"
                } else {
                    "edge_multiplicity"
                };
                out.push((format!("{class}:{name}"), format!("{name}: {got:?} expected {want:?}")));
            }
        }
        for (k, me) in &m.edges {
            if let Some(p) = self.ep1.get(k) {
                if *p != me.props {
                    out.push((prop_diff_class("edge_prop_single", &me.props, p), format!("edge {k:?}: {:?} expected {:?}", short_map(p), short_map(&me.props))));
                }
            }
            if let Some(p) = self.epm.get(k) {
                if *p != me.props {
                    out.push((prop_diff_class("edge_prop_map", &me.props, p), format!("edge {k:?}: {:?} expected {:?}", short_map(p), short_map(&me.props))));
                }
            }
        }
        out
    }
}

fn short_map(m: &BTreeMap<String, String>) -> BTreeMap<String, String> {
    m.iter().map(|(k, v)| (key_name(k), v.clone())).collect()
}

/// `want` vs `got`: classify as removed-value-visible / value-missing / stale-value.
fn prop_diff_class(prefix: &str, want: &BTreeMap<String, String>, got: &BTreeMap<String, String>) -> String {
    if got.keys().any(|k| !want.contains_key(k)) {
        format!("{prefix}:extra_key")
    } else if want.keys().any(|k| !got.contains_key(k)) {
        format!("{prefix}:missing_key")
    } else {
        format!("{prefix}:wrong_value")
    }
}

// ---------------------------------------------------------------------------------------------
// Driver of the real database
// ---------------------------------------------------------------------------------------------

pub struct Sut {
    pub dir: PathBuf,
    pub base: PathBuf,
    pub db: Option<Db>,
    /// external id -> internal id as returned by create_node
    pub ids: BTreeMap<u64, u32>,
    pub generation: u32,
}

pub type StepResult = Result<(), String>;

fn flatten(ops: &[Op]) -> Vec<Op> {
    let mut out = Vec::new();
    for o in ops {
        match o {
            Op::Tx(inner) => out.extend(flatten(inner)),
            other => out.push(other.clone()),
        }
    }
    out
}

impl Sut {
    pub fn new(dir: &Path) -> Result<Self, String> {
        let base = dir.join("g");
        let db = catch(|| Db::open(&base)).and_then(|r| r.map_err(|e| format!("open: {e}")))?;
        Ok(Sut { dir: dir.to_path_buf(), base, db: Some(db), ids: BTreeMap::new(), generation: 0 })
    }

    pub fn db(&self) -> &Db {
        self.db.as_ref().expect("db open")
    }

    pub fn reopen(&mut self) -> StepResult {
        let base = self.base.clone();
        let db = catch(|| Db::open(&base)).and_then(|r| r.map_err(|e| format!("open: {e}")))?;
        self.db = Some(db);
        Ok(())
    }

    fn iid(&self, e: u64) -> Result<u32, String> {
        self.ids.get(&e).copied().ok_or_else(|| format!("harness: unknown external id {e}"))
    }

    fn write_ops(&mut self, ops: &[Op], model: &GraphModel, commit: bool) -> StepResult {
        let mut new_ids: Vec<(u64, u32)> = Vec::new();
        let ids = self.ids.clone();
        let db = self.db.as_ref().expect("db open");
        let r = catch(|| -> Result<(), String> {
            let mut tx = db.begin_write();
            let mut m = model.clone();
            let mut local: BTreeMap<u64, u32> = ids.clone();
            for op in ops {
                let get = |e: u64, local: &BTreeMap<u64, u32>| local.get(&e).copied().ok_or_else(|| format!("harness: unknown ext id {e}"));
                match op {
                    Op::CreateNode { e, labels } => {
                        let lid = match labels.first() {
                            Some(l) => tx.get_or_create_label(l).map_err(|e| format!("label: {e}"))?,
                            None => u32::MAX,
                        };
                        let iid = tx.create_node(*e, lid).map_err(|e| format!("create_node: {e}"))?;
                        for l in labels.iter().skip(1) {
                            let lid = tx.get_or_create_label(l).map_err(|e| format!("label: {e}"))?;
                            WriteableGraph::add_node_label(&mut tx, iid, lid).map_err(|e| format!("add_label: {e}"))?;
                        }
                        local.insert(*e, iid);
                        new_ids.push((*e, iid));
                    }
                    Op::CreateNodes { base, n } => {
                        let lid = tx.get_or_create_label("N").map_err(|e| format!("label: {e}"))?;
                        for i in 1..=*n as u64 {
                            let iid = tx.create_node(base + i, lid).map_err(|e| format!("create_node: {e}"))?;
                            local.insert(base + i, iid);
                            new_ids.push((base + i, iid));
                        }
                    }
                    Op::AddLabel { e, l } => {
                        let lid = tx.get_or_create_label(l).map_err(|e| format!("label: {e}"))?;
                        WriteableGraph::add_node_label(&mut tx, get(*e, &local)?, lid).map_err(|e| format!("add_label: {e}"))?;
                    }
                    Op::RemoveLabel { e, l } => {
                        let lid = tx.get_or_create_label(l).map_err(|e| format!("label: {e}"))?;
                        WriteableGraph::remove_node_label(&mut tx, get(*e, &local)?, lid).map_err(|e| format!("remove_label: {e}"))?;
                    }
                    Op::CreateEdge { s, t, d } => {
                        let r = tx.get_or_create_rel_type(t).map_err(|e| format!("rel: {e}"))?;
                        tx.create_edge(get(*s, &local)?, r, get(*d, &local)?);
                    }
                    Op::DeleteEdge { s, t, d } => {
                        let r = tx.get_or_create_rel_type(t).map_err(|e| format!("rel: {e}"))?;
                        tx.tombstone_edge(get(*s, &local)?, r, get(*d, &local)?);
                    }
                    Op::ReplaceEdge { s, t, d } => {
                        let r = tx.get_or_create_rel_type(t).map_err(|e| format!("rel: {e}"))?;
                        tx.tombstone_edge(get(*s, &local)?, r, get(*d, &local)?);
                        tx.create_edge(get(*s, &local)?, r, get(*d, &local)?);
                    }
                    Op::DeleteNode { e } => {
                        let incident: Vec<EKey> = m.edges.keys().filter(|k| k.0 == *e || k.2 == *e).cloned().collect();
                        for k in incident {
                            let r = tx.get_or_create_rel_type(&k.1).map_err(|e| format!("rel: {e}"))?;
                            tx.tombstone_edge(get(k.0, &local)?, r, get(k.2, &local)?);
                        }
                        tx.tombstone_node(get(*e, &local)?);
                    }
                    Op::TombstoneNodeOnly { e } => {
                        tx.tombstone_node(get(*e, &local)?);
                    }
                    Op::SetNodeProp { e, k, v } => {
                        tx.set_node_property(get(*e, &local)?, k.to_string(), v.pv()).map_err(|e| format!("set: {e}"))?;
                    }
                    Op::RemoveNodeProp { e, k } => {
                        tx.remove_node_property(get(*e, &local)?, k).map_err(|e| format!("remove: {e}"))?;
                    }
                    Op::SetEdgeProp { s, t, d, k, v } => {
                        let r = tx.get_or_create_rel_type(t).map_err(|e| format!("rel: {e}"))?;
                        tx.set_edge_property(get(*s, &local)?, r, get(*d, &local)?, k.to_string(), v.pv()).map_err(|e| format!("set: {e}"))?;
                    }
                    Op::RemoveEdgeProp { s, t, d, k } => {
                        let r = tx.get_or_create_rel_type(t).map_err(|e| format!("rel: {e}"))?;
                        tx.remove_edge_property(get(*s, &local)?, r, get(*d, &local)?, k).map_err(|e| format!("remove: {e}"))?;
                    }
                    Op::SetVector { e, v } => {
                        tx.set_vector(get(*e, &local)?, vec![v[0] as f32, v[1] as f32]).map_err(|e| format!("set_vector: {e}"))?;
                    }
                    Op::SetVector3 { e, v } => {
                        tx.set_vector(get(*e, &local)?, vec![v[0] as f32, v[1] as f32, v[2] as f32]).map_err(|e| format!("set_vector: {e}"))?;
                    }
                    other => return Err(format!("harness: {} is not a write op", other.kind())),
                }
                m.apply(op);
            }
            if commit {
                tx.commit().map_err(|e| format!("commit: {e}"))?;
            } else {
                drop(tx);
            }
            Ok(())
        });
        match r {
            Ok(Ok(())) => {
                if commit {
                    for (e, i) in new_ids {
                        self.ids.insert(e, i);
                    }
                }
                Ok(())
            }
            Ok(Err(e)) => Err(e),
            Err(p) => Err(p),
        }
    }

    /// Applies one operation to the real database.  `model` is the model state *before* the step.
    pub fn apply(&mut self, op: &Op, model: &GraphModel) -> StepResult {
        match op {
            Op::Tx(ops) => self.write_ops(&flatten(ops), model, true),
            Op::Abandon(ops) => self.write_ops(&flatten(ops), model, false),
            Op::Compact => catch(|| self.db().compact().map_err(|e| format!("compact: {e}"))).and_then(|r| r),
            Op::Checkpoint => catch(|| self.db().checkpoint().map_err(|e| format!("checkpoint: {e}"))).and_then(|r| r),
            Op::CreateIndex { l, k } => catch(|| self.db().create_index(l, k).map_err(|e| format!("create_index: {e}"))).and_then(|r| r),
            Op::CloseOpen => {
                let db = self.db.take().expect("open");
                catch(|| db.close().map_err(|e| format!("close: {e}"))).and_then(|r| r)?;
                self.reopen()
            }
            Op::DropOpen => {
                drop(self.db.take());
                self.reopen()
            }
            Op::Vacuum => {
                let db = self.db.take().expect("open");
                catch(|| db.close().map_err(|e| format!("close: {e}"))).and_then(|r| r)?;
                let base = self.base.clone();
                catch(|| nervusdb::vacuum(&base).map(|_| ()).map_err(|e| format!("vacuum: {e}"))).and_then(|r| r)?;
                self.reopen()
            }
            Op::BackupRestore => {
                let db = self.db.take().expect("open");
                catch(|| db.close().map_err(|e| format!("close: {e}"))).and_then(|r| r)?;
                self.generation += 1;
                let bdir = self.dir.join(format!("bk{}", self.generation));
                std::fs::create_dir_all(&bdir).map_err(|e| e.to_string())?;
                let base = self.base.clone();
                let info = catch(|| nervusdb::backup(&base, &bdir).map_err(|e| format!("backup: {e}"))).and_then(|r| r)?;
                let newbase = self.dir.join(format!("r{}", self.generation));
                let target = newbase.with_extension("ndb");
                catch(|| nervusdb::BackupManager::restore_from_backup(&bdir, info.id, &target).map_err(|e| format!("restore: {e}"))).and_then(|r| r)?;
                self.base = newbase;
                self.reopen()
            }
            Op::BackupGrowRestoreInPlace => {
                // backup of the closed database, then the database grows, then the backup is restored over the
                // database's own (longer) files
                let db = self.db.take().expect("open");
                catch(|| db.close().map_err(|e| format!("close: {e}"))).and_then(|r| r)?;
                self.generation += 1;
                let bdir = self.dir.join(format!("bk{}", self.generation));
                std::fs::create_dir_all(&bdir).map_err(|e| e.to_string())?;
                let base = self.base.clone();
                let info = catch(|| nervusdb::backup(&base, &bdir).map_err(|e| format!("backup: {e}"))).and_then(|r| r)?;
                self.reopen()?;
                let grow = [Op::Tx(vec![Op::CreateNode { e: 77, labels: vec!["A"] }, Op::SetNodeProp { e: 77, k: "k", v: Val::I(7) }]), Op::Tx(vec![Op::CreateNode { e: 78, labels: vec!["B"] }, Op::CreateEdge { s: 77, t: "R", d: 78 }])];
                let mut m = model.clone();
                for g in &grow {
                    self.write_ops(&flatten(std::slice::from_ref(g)), &m, true).map_err(|e| format!("growth after backup: {e}"))?;
                    m.apply(g);
                }
                drop(self.db.take());
                self.ids.remove(&77);
                self.ids.remove(&78);
                let target = base.with_extension("ndb");
                catch(|| nervusdb::BackupManager::restore_from_backup(&bdir, info.id, &target).map_err(|e| format!("restore in place: {e}"))).and_then(|r| r)?;
                self.reopen()
            }
            single => self.write_ops(std::slice::from_ref(single), model, true),
        }
    }

    pub fn dump(&self, spec: &DumpSpec) -> Dump {
        let db = self.db();
        match catch(|| db.snapshot()) {
            Ok(s) => dump_snapshot(&s, spec),
            Err(p) => Dump { problems: vec![p], ..Default::default() },
        }
    }
}
