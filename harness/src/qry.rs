//! E-QUERY plumbing: a database wrapper for Cypher-level checks and canonical result values.
use crate::common::*;
use crate::rt::{DetHooks, with_hooks};
use nervusdb::query::{Params, Value, prepare};
use nervusdb::{Db, GraphSnapshot};
use std::collections::BTreeMap;
use std::path::PathBuf;
use std::sync::Arc;

/// Canonical, totally ordered result value (floats by bit pattern; NaN canonicalised).
#[derive(Clone, Debug, PartialEq, Eq, PartialOrd, Ord, Hash)]
pub enum CV {
    Null,
    Bool(bool),
    Int(i64),
    Float(u64),
    Str(String),
    List(Vec<CV>),
    Map(BTreeMap<String, CV>),
    /// node identified by its `uid` property (or internal id when it has none)
    Node(i64),
    /// relationship: (src uid, type, dst uid)
    Rel(i64, String, i64),
    Other(String),
}

impl CV {
    pub fn float(f: f64) -> CV {
        if f.is_nan() { CV::Float(f64::NAN.to_bits()) } else { CV::Float(f.to_bits()) }
    }
    pub fn show(&self) -> String {
        match self {
            CV::Null => "null".into(),
            CV::Bool(b) => b.to_string(),
            CV::Int(i) => i.to_string(),
            CV::Float(b) => format!("{:?}", f64::from_bits(*b)),
            CV::Str(s) => format!("{s:?}"),
            CV::List(l) => format!("[{}]", l.iter().map(|x| x.show()).collect::<Vec<_>>().join(", ")),
            CV::Map(m) => format!("{{{}}}", m.iter().map(|(k, v)| format!("{k}: {}", v.show())).collect::<Vec<_>>().join(", ")),
            CV::Node(u) => format!("(#{u})"),
            CV::Rel(s, t, d) => format!("[#{s}-{t}->#{d}]"),
            CV::Other(s) => format!("<{s}>"),
        }
    }
}

pub type CRow = Vec<CV>;

pub fn show_rows(rows: &[CRow]) -> String {
    let mut s: Vec<String> = rows.iter().take(12).map(|r| format!("({})", r.iter().map(|v| v.show()).collect::<Vec<_>>().join(", "))).collect();
    if rows.len() > 12 {
        s.push(format!("... {} rows", rows.len()));
    }
    format!("[{}]", s.join(", "))
}

pub fn canon<S: GraphSnapshot>(snap: &S, v: &Value) -> CV {
    let uid_of = |iid: u32| -> i64 {
        match snap.node_property(iid, "uid") {
            Some(nervusdb::PropertyValue::Int(i)) => i,
            _ => -1000 - iid as i64,
        }
    };
    match v {
        Value::Null => CV::Null,
        Value::Bool(b) => CV::Bool(*b),
        Value::Int(i) => CV::Int(*i),
        Value::Float(f) => CV::float(*f),
        Value::String(s) => CV::Str(s.clone()),
        Value::List(l) => CV::List(l.iter().map(|x| canon(snap, x)).collect()),
        Value::Map(m) => CV::Map(m.iter().map(|(k, x)| (k.clone(), canon(snap, x))).collect()),
        Value::NodeId(i) => CV::Node(uid_of(*i)),
        Value::Node(n) => CV::Node(uid_of(n.id)),
        Value::EdgeKey(e) => CV::Rel(uid_of(e.src), snap.resolve_rel_type_name(e.rel).unwrap_or_default(), uid_of(e.dst)),
        Value::Relationship(r) => CV::Rel(uid_of(r.key.src), r.rel_type.clone(), uid_of(r.key.dst)),
        other => CV::Other(truncate(&format!("{other:?}"), 80)),
    }
}

pub struct QDb {
    pub db: Option<Db>,
    pub dir: PathBuf,
    pub hooks: Arc<DetHooks>,
    _guard: ScratchGuard,
}

#[derive(Debug, Clone, PartialEq)]
pub enum QErr {
    /// rejected by parser / planner
    Compile(String),
    /// failed while executing
    Runtime(String),
    Panic(String),
}

impl QErr {
    pub fn class(&self) -> String {
        match self {
            QErr::Compile(m) => format!("compile:{}", truncate(m, 50)),
            QErr::Runtime(m) => format!("runtime:{}", truncate(m, 50)),
            QErr::Panic(m) => format!("panic:{}", m.split(": ").next().unwrap_or("")),
        }
    }
    pub fn msg(&self) -> &str {
        match self {
            QErr::Compile(m) | QErr::Runtime(m) | QErr::Panic(m) => m,
        }
    }
}

impl QDb {
    pub fn new() -> QDb {
        let dir = scratch_dir("q");
        let db = Db::open(dir.join("g")).expect("open");
        QDb { db: Some(db), dir: dir.clone(), hooks: DetHooks::new(), _guard: ScratchGuard(dir) }
    }
    pub fn db(&self) -> &Db {
        self.db.as_ref().unwrap()
    }
    pub fn reopen(&mut self) {
        drop(self.db.take());
        self.db = Some(Db::open(self.dir.join("g")).expect("reopen"));
    }

    /// Runs a read query; rows are returned with the columns in projection order.
    pub fn read(&self, q: &str, params: &Params) -> Result<(Vec<String>, Vec<CRow>), QErr> {
        let r = catch(|| {
            with_hooks(self.hooks.clone(), || -> Result<(Vec<String>, Vec<CRow>), QErr> {
                let prepared = prepare(q).map_err(|e| QErr::Compile(e.to_string()))?;
                let snap = self.db().snapshot();
                let mut cols: Vec<String> = Vec::new();
                let mut out = Vec::new();
                for row in prepared.execute_streaming(&snap, params) {
                    let row = row.map_err(|e| QErr::Runtime(e.to_string()))?;
                    if cols.is_empty() {
                        cols = row.columns().iter().map(|(k, _)| k.clone()).collect();
                    }
                    out.push(row.columns().iter().map(|(_, v)| canon(&snap, v)).collect());
                }
                Ok((cols, out))
            })
        });
        match r {
            Ok(x) => x,
            Err(p) => Err(QErr::Panic(p)),
        }
    }

    /// Runs a (possibly writing) statement through execute_mixed + commit; returns the change count.
    pub fn write(&self, q: &str, params: &Params) -> Result<u32, QErr> {
        let r = catch(|| {
            with_hooks(self.hooks.clone(), || -> Result<u32, QErr> {
                let prepared = prepare(q).map_err(|e| QErr::Compile(e.to_string()))?;
                let snap = self.db().snapshot();
                let mut txn = self.db().begin_write();
                let (_rows, n) = prepared.execute_mixed(&snap, &mut txn, params).map_err(|e| QErr::Runtime(e.to_string()))?;
                txn.commit().map_err(|e| QErr::Runtime(format!("commit: {e}")))?;
                Ok(n)
            })
        });
        match r {
            Ok(x) => x,
            Err(p) => Err(QErr::Panic(p)),
        }
    }
}

/// Multiset equality of rows.
pub fn same_multiset(a: &[CRow], b: &[CRow]) -> bool {
    let mut x = a.to_vec();
    let mut y = b.to_vec();
    x.sort();
    y.sort();
    x == y
}
