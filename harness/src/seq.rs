//! E-SEQ: exhaustive operation-sequence exploration of the real storage engine.
use crate::common::*;
use crate::sut::*;
use rayon::prelude::*;
use serde_json::json;
use std::sync::atomic::{AtomicBool, Ordering};
use std::time::Instant;

/// Outcome of checking one history.
pub struct Outcome {
    pub violations: Vec<Violation>,
    /// executions of the real code performed
    pub runs: u64,
    /// operation applications performed
    pub steps: u64,
    /// short label for the distinct-outcome histogram
    pub label: String,
    /// the case exercised what the property is about (non-vacuity)
    pub nontrivial: bool,
}

/// Node-creation symmetry: external ids are created in ascending order of the alphabet.
fn symmetric_ok(model: &GraphModel, op: &Op, node_ids: &[u64]) -> bool {
    let first_unused = node_ids.iter().find(|e| !model.nodes.contains_key(e) && !model.dead.contains_key(e));
    let check = |e: &u64| Some(e) == first_unused || !node_ids.contains(e);
    match op {
        Op::CreateNode { e, .. } => check(e),
        Op::Tx(ops) | Op::Abandon(ops) => {
            // only the first create in a tx is constrained (later ones follow the same rule on the evolving model)
            let mut m = model.clone();
            for o in ops {
                if !symmetric_ok(&m, o, node_ids) {
                    return false;
                }
                if m.enabled(o) {
                    m.apply(o);
                }
            }
            true
        }
        _ => true,
    }
}

pub struct Explorer<'a> {
    pub rep: &'a Report,
    pub alphabet: Vec<Op>,
    pub node_ids: Vec<u64>,
    pub max_depth: usize,
    pub wall_cap_s: f64,
    /// do not extend histories that already violated
    pub prune_violating: bool,
}

impl<'a> Explorer<'a> {
    /// Level-by-level exhaustive enumeration of all enabled histories up to `max_depth`.
    pub fn run(&self, check: &(dyn Fn(&[Op]) -> Outcome + Sync)) {
        let start = Instant::now();
        let mut frontier: Vec<Vec<u16>> = vec![Vec::new()];
        let mut completed_depth = 0usize;
        let mut per_level = Vec::new();
        for depth in 1..=self.max_depth {
            // generate candidates
            let cands: Vec<Vec<u16>> = frontier
                .par_iter()
                .flat_map_iter(|h| {
                    let mut m = GraphModel::default();
                    for &i in h {
                        m.apply(&self.alphabet[i as usize]);
                    }
                    let mut out = Vec::new();
                    for (i, op) in self.alphabet.iter().enumerate() {
                        if m.enabled(op) && symmetric_ok(&m, op, &self.node_ids) {
                            let mut n = h.clone();
                            n.push(i as u16);
                            out.push(n);
                        }
                    }
                    out
                })
                .collect();
            let timed_out = AtomicBool::new(false);
            let results: Vec<(Vec<u16>, bool, bool)> = cands
                .par_iter()
                .map(|h| {
                    if start.elapsed().as_secs_f64() > self.wall_cap_s {
                        timed_out.store(true, Ordering::Relaxed);
                        return (h.clone(), false, false);
                    }
                    let ops: Vec<Op> = h.iter().map(|&i| self.alphabet[i as usize].clone()).collect();
                    let o = check(&ops);
                    self.rep.add_states(1);
                    self.rep.add_traces(o.runs);
                    self.rep.add_transitions(o.steps);
                    self.rep.add_evals(1);
                    if o.nontrivial {
                        self.rep.add_nontrivial(1);
                    }
                    self.rep.outcome(&o.label);
                    let bad = !o.violations.is_empty();
                    for v in o.violations {
                        self.rep.violation(v);
                    }
                    (h.clone(), true, bad)
                })
                .collect();
            let done = results.iter().filter(|r| r.1).count();
            per_level.push(json!({"depth": depth, "histories": cands.len(), "checked": done}));
            if timed_out.load(Ordering::Relaxed) {
                self.rep.not_exhaustive(&format!("wall cap {}s hit at depth {depth} after {done}/{} histories; depth {completed_depth} fully covered", self.wall_cap_s, cands.len()));
                break;
            }
            completed_depth = depth;
            frontier = results
                .into_iter()
                .filter(|(_, _, bad)| !(self.prune_violating && *bad))
                .map(|(h, _, _)| h)
                .collect();
            if cands.len() > 0 {
                let h = &cands[cands.len() / 2];
                let ops: Vec<Op> = h.iter().map(|&i| self.alphabet[i as usize].clone()).collect();
                self.rep.sample(json!(show_history(&ops)));
            }
        }
        self.rep.set("completed_depth", json!(completed_depth));
        self.rep.set("levels", json!(per_level));
        self.rep.set("alphabet", json!(self.alphabet.iter().map(|o| o.show()).collect::<Vec<_>>()));
    }
}

/// Runs `h` from an empty database; returns the Sut, the model and the first failing step (if any).
pub struct RunResult {
    pub sut: Option<Sut>,
    pub model: GraphModel,
    pub failed_at: Option<(usize, String)>,
    pub steps: u64,
    _guard: ScratchGuard,
}

pub fn run_history(h: &[Op]) -> RunResult {
    let dir = scratch_dir("seq");
    let guard = ScratchGuard(dir.clone());
    let mut model = GraphModel::default();
    let mut sut = match Sut::new(&dir) {
        Ok(s) => s,
        Err(e) => return RunResult { sut: None, model, failed_at: Some((0, e)), steps: 0, _guard: guard },
    };
    let mut steps = 0;
    for (i, op) in h.iter().enumerate() {
        steps += 1;
        match sut.apply(op, &model) {
            Ok(()) => model.apply(op),
            Err(e) => {
                let keep = sut.db.is_some();
                return RunResult { sut: if keep { Some(sut) } else { None }, model, failed_at: Some((i, e)), steps, _guard: guard };
            }
        }
    }
    RunResult { sut: Some(sut), model, failed_at: None, steps, _guard: guard }
}

fn err_class(e: &str) -> String {
    // "compact: io error: ..." -> "compact: io error"; PANIC@file:line: msg -> PANIC@file:line
    if e.starts_with("PANIC@") {
        return e.split(": ").next().unwrap_or(e).to_string();
    }
    let mut parts = e.splitn(3, ": ");
    let a = parts.next().unwrap_or("");
    let b = parts.next().unwrap_or("");
    truncate(&format!("{a}: {b}"), 80)
}

fn viol(class: &str, h: &[Op], detail: String, extra: serde_json::Value) -> Violation {
    Violation { class: class.to_string(), kinds: kinds(h), replay: json!({"engine": "seq", "history": show_history(h), "extra": extra}), detail }
}

// ---------------------------------------------------------------------------------------------
// Alphabets
// ---------------------------------------------------------------------------------------------

pub fn k_long() -> &'static str {
    Box::leak(long_key().into_boxed_str())
}

/// A string whose encoding spans more than one blob page (the first page of the chain is
/// filled completely: 8182 payload bytes per page).
pub fn big_value() -> &'static str {
    Box::leak("v".repeat(3 * 8182 - 5).into_boxed_str())
}

pub fn sigma_write(nodes: &[u64], rich: bool) -> Vec<Op> {
    let mut a = Vec::new();
    for &e in nodes {
        a.push(Op::CreateNode { e, labels: vec!["A"] });
        if rich {
            a.push(Op::CreateNode { e, labels: vec!["A", "B"] });
            a.push(Op::CreateNode { e, labels: vec![] });
        }
    }
    for &e in nodes {
        a.push(Op::AddLabel { e, l: "B" });
        a.push(Op::RemoveLabel { e, l: "A" });
        if rich {
            a.push(Op::RemoveLabel { e, l: "B" });
        }
    }
    // the same label added and removed inside one transaction (both orders)
    a.push(Op::Tx(vec![Op::AddLabel { e: nodes[0], l: "B" }, Op::RemoveLabel { e: nodes[0], l: "B" }]));
    a.push(Op::Tx(vec![Op::RemoveLabel { e: nodes[0], l: "A" }, Op::AddLabel { e: nodes[0], l: "A" }]));
    let pairs: Vec<(u64, u64)> = if nodes.len() >= 2 { vec![(nodes[0], nodes[1]), (nodes[1], nodes[0]), (nodes[0], nodes[0])] } else { vec![(nodes[0], nodes[0])] };
    for &(s, d) in &pairs {
        a.push(Op::CreateEdge { s, t: "R", d });
        a.push(Op::DeleteEdge { s, t: "R", d });
    }
    let (s, d) = pairs[0];
    a.push(Op::ReplaceEdge { s, t: "R", d });
    if rich {
        a.push(Op::CreateEdge { s, t: "S", d });
    }
    for &e in nodes {
        a.push(Op::DeleteNode { e });
    }
    if nodes.len() >= 2 {
        a.push(Op::TombstoneNodeOnly { e: nodes[1] });
    }
    let e = nodes[0];
    a.push(Op::SetNodeProp { e, k: "k", v: Val::I(1) });
    a.push(Op::SetNodeProp { e, k: "k", v: Val::I(2) });
    a.push(Op::RemoveNodeProp { e, k: "k" });
    if rich {
        a.push(Op::SetNodeProp { e, k: "k", v: Val::S("s") });
        a.push(Op::SetNodeProp { e, k: k_long(), v: Val::I(1) });
        a.push(Op::RemoveNodeProp { e, k: k_long() });
        if nodes.len() >= 2 {
            a.push(Op::SetNodeProp { e: nodes[1], k: "k", v: Val::I(1) });
        }
    }
    a.push(Op::SetEdgeProp { s, t: "R", d, k: "k", v: Val::I(1) });
    a.push(Op::SetEdgeProp { s, t: "R", d, k: "k", v: Val::I(2) });
    a.push(Op::RemoveEdgeProp { s, t: "R", d, k: "k" });
    if rich {
        // the self-loop is the shortest way to a relationship with properties
        let e = nodes[0];
        a.push(Op::SetEdgeProp { s: e, t: "R", d: e, k: "k", v: Val::I(1) });
        a.push(Op::ReplaceEdge { s: e, t: "R", d: e });
    }
    // a populated starting point in one step (non-initial states at depth 1)
    if nodes.len() >= 2 {
        a.push(Op::Tx(vec![
            Op::CreateNode { e: nodes[0], labels: vec!["A"] },
            Op::CreateNode { e: nodes[1], labels: vec!["A"] },
            Op::CreateEdge { s: nodes[0], t: "R", d: nodes[1] },
            Op::SetNodeProp { e: nodes[0], k: "k", v: Val::I(1) },
            Op::SetEdgeProp { s: nodes[0], t: "R", d: nodes[1], k: "k", v: Val::I(1) },
        ]));
    }
    a
}

pub fn sigma_maint() -> Vec<Op> {
    vec![Op::Compact, Op::CloseOpen, Op::DropOpen]
}

fn spec() -> DumpSpec {
    DumpSpec::default()
}

// ---------------------------------------------------------------------------------------------
// C04 Reopen preserves logical content
// ---------------------------------------------------------------------------------------------

pub fn c04(tier: Tier) -> i32 {
    let rep = Report::new("C04", tier);
    rep.rule("all enabled histories over the storage alphabet (writes + Compact/CloseOpen/DropOpen/CreateIndex) up to the stated depth, node ids in canonical order, once on external ids {1, 2} and (one level shallower) on {0, 2}; after each history: dump, then drop+open (1st execution) and close+open (2nd execution), dump again; non-trivial = history with at least one write");
    let check = |h: &[Op]| {
        let mut out = Outcome { violations: vec![], runs: 0, steps: 0, label: String::new(), nontrivial: h.iter().any(|o| !o.is_maintenance()) };
        let mut labels = Vec::new();
        for reopen in [Op::DropOpen, Op::CloseOpen] {
            let mut r = run_history(h);
            out.runs += 1;
            out.steps += r.steps;
            if let Some((i, e)) = &r.failed_at {
                // A failing reopen inside the history is C04's business; other failures belong to other properties.
                if matches!(h[*i], Op::CloseOpen | Op::DropOpen) {
                    out.violations.push(viol(&format!("reopen_failed:{}", err_class(e)), &h[..=*i], e.clone(), json!({})));
                }
                labels.push(format!("step_failed:{}", h[*i].kind()));
                break;
            }
            let sut = r.sut.as_mut().unwrap();
            let before = sut.dump(&spec());
            let model = r.model.clone();
            out.steps += 1;
            let mut hh = h.to_vec();
            hh.push(reopen.clone());
            match sut.apply(&reopen, &model) {
                Err(e) => {
                    out.violations.push(viol(&format!("reopen_failed:{}", err_class(&e)), &hh, e, json!({})));
                    labels.push("reopen_failed".into());
                }
                Ok(()) => {
                    let after = sut.dump(&spec());
                    match before.diff(&after) {
                        Some((class, detail)) => {
                            labels.push(class.clone());
                            out.violations.push(viol(&class, &hh, detail, json!({"before": before.to_json(), "after": after.to_json()})));
                        }
                        None => labels.push("same".into()),
                    }
                }
            }
        }
        out.label = labels.join("|");
        out
    };
    // external id 0 is a legal id that the read path treats specially: a shallower family on node ids {0, 2} first
    for (nodes, depth) in [(vec![0u64, 2], tier.pick(2, 3)), (vec![1u64, 2], tier.pick(3, 4))] {
        let mut alphabet = sigma_write(&nodes, tier == Tier::Thorough);
        alphabet.extend(sigma_maint());
        alphabet.push(Op::CreateIndex { l: "A", k: "k" });
        alphabet.push(Op::CreateNodes { base: 1000, n: 513 });
        let ex = Explorer { rep: &rep, alphabet, node_ids: nodes, max_depth: depth, wall_cap_s: tier.pick(45.0, 1500.0), prune_violating: true };
        ex.run(&check);
    }
    rep.assume("the dump reads every storage read interface named by the property (nodes, labels, single/whole-map properties, both traversal directions typed and untyped, relationship properties, tombstone flags)");
    rep.finish()
}

// ---------------------------------------------------------------------------------------------
// C05 Compaction and checkpoint are invisible (differential)
// ---------------------------------------------------------------------------------------------

fn final_dump(h: &[Op]) -> (Result<Dump, (usize, String)>, u64) {
    let r = run_history(h);
    match r.failed_at {
        Some(f) => (Err(f), r.steps),
        None => (Ok(r.sut.as_ref().unwrap().dump(&spec())), r.steps),
    }
}

pub fn c05(tier: Tier) -> i32 {
    let rep = Report::new("C05", tier);
    rep.rule("all enabled write histories h up to the stated depth; for every insertion position i (and every pair i<=j) the history with Compact / Checkpoint inserted is executed and its final dump must equal the final dump of h; plus the overwrite family 'set K=n; compact' for n rounds; plus the gap family: four nodes and every non-empty subset of seven relationships whose sources leave gaps in id order, with Compact / Compact + reopen / Compact + transaction + Compact appended; non-trivial = the inserted compaction had at least one preceding write");
    let nodes = vec![1u64, 2];
    let alphabet = sigma_write(&nodes, tier == Tier::Thorough);
    let ex = Explorer { rep: &rep, alphabet, node_ids: nodes, max_depth: tier.pick(3, 4), wall_cap_s: tier.pick(45.0, 1500.0), prune_violating: true };
    ex.run(&|h: &[Op]| {
        let mut out = Outcome { violations: vec![], runs: 1, steps: 0, label: String::new(), nontrivial: false };
        let (base, st) = final_dump(h);
        out.steps += st;
        let base = match base {
            Ok(d) => d,
            Err((i, _)) => {
                out.label = format!("base_step_failed:{}", h[i].kind());
                return out;
            }
        };
        let n = h.len();
        let mut variants: Vec<Vec<Op>> = Vec::new();
        for i in 1..=n {
            for m in [Op::Compact, Op::Checkpoint] {
                let mut v = h.to_vec();
                v.insert(i, m);
                variants.push(v);
            }
            for j in i..=n {
                let mut v = h.to_vec();
                v.insert(j, Op::Compact);
                v.insert(i, Op::Compact);
                variants.push(v);
            }
        }
        let mut labels = std::collections::BTreeSet::new();
        for v in variants {
            out.nontrivial = true;
            out.runs += 1;
            let (d, st) = final_dump(&v);
            out.steps += st;
            match d {
                Err((i, e)) => {
                    let class = format!("step_failed_after_compaction:{}:{}", v[i].kind(), err_class(&e));
                    labels.insert(class.clone());
                    out.violations.push(viol(&class, &v[..=i], e, json!({})));
                }
                Ok(d) => match base.diff(&d) {
                    Some((class, detail)) => {
                        labels.insert(class.clone());
                        out.violations.push(viol(&class, &v, detail, json!({"without": base.to_json(), "with": d.to_json()})));
                    }
                    None => {
                        labels.insert("same".into());
                    }
                },
            }
        }
        out.label = labels.into_iter().collect::<Vec<_>>().join("|");
        out
    });
    // Overwrite family: the same property overwritten N times with a compaction after every write.
    let rounds = tier.pick(12, 80);
    let mut h: Vec<Op> = vec![Op::CreateNode { e: 1, labels: vec!["A"] }];
    let mut fam_viol = 0;
    for n in 1..=rounds {
        h.push(Op::SetNodeProp { e: 1, k: k_long(), v: Val::I(n as i64) });
        h.push(Op::Compact);
        let r = run_history(&h);
        rep.add_traces(1);
        rep.add_transitions(r.steps);
        rep.add_states(1);
        match r.failed_at {
            Some((i, e)) => {
                rep.violation(viol(&format!("overwrite_family:step_failed:{}", err_class(&e)), &[h[i].clone()], e, json!({"rounds": n})));
                fam_viol += 1;
                break;
            }
            None => {
                let d = r.sut.as_ref().unwrap().dump(&spec());
                let bad = d.check_model(&r.model, true);
                if let Some((class, detail)) = bad.into_iter().next() {
                    rep.violation(Violation { class: format!("overwrite_family:{class}"), kinds: vec!["SetNodeProp".into(), "Compact".into(), format!("rounds={n}")], replay: json!({"engine":"seq","history": show_history(&h)}), detail });
                    fam_viol += 1;
                    break;
                }
            }
        }
    }
    rep.set("overwrite_family_rounds", json!(rounds));
    rep.set("overwrite_family_violations", json!(fam_viol));
    // Gap family: four nodes and EVERY subset of seven relationships (sources with gaps between them in id order,
    // incoming lists over several sources), committed in one transaction; dump before == dump after Compact,
    // after a second transaction + Compact, and after reopen.
    {
        let edges: [(u64, u64); 7] = [(1, 4), (3, 2), (3, 4), (2, 1), (4, 3), (1, 2), (4, 4)];
        let subsets: Vec<u32> = (1..(1u32 << edges.len())).collect();
        let res: Vec<(u32, Option<(String, String, Vec<Op>)>, u64)> = subsets
            .par_iter()
            .map(|&mask| {
                let mut tx: Vec<Op> = (1..=4u64).map(|e| Op::CreateNode { e, labels: vec!["A"] }).collect();
                for (i, (a, b)) in edges.iter().enumerate() {
                    if mask & (1 << i) != 0 {
                        tx.push(Op::CreateEdge { s: *a, t: "R", d: *b });
                    }
                }
                let base_h = vec![Op::Tx(tx)];
                let (base, mut steps) = final_dump(&base_h);
                let Ok(base) = base else { return (mask, None, steps) };
                for tail in [vec![Op::Compact], vec![Op::Compact, Op::DropOpen], vec![Op::Compact, Op::Tx(vec![Op::SetNodeProp { e: 2, k: "k", v: Val::I(1) }, Op::RemoveNodeProp { e: 2, k: "k" }]), Op::Compact]] {
                    let mut h = base_h.clone();
                    h.extend(tail);
                    let (d, st) = final_dump(&h);
                    steps += st;
                    match d {
                        Err((i, e)) => return (mask, Some((format!("gap_family:step_failed:{}", h[i].kind()), e, h)), steps),
                        Ok(d) => {
                            if let Some((class, detail)) = base.diff(&d) {
                                return (mask, Some((format!("gap_family:{class}"), detail, h)), steps);
                            }
                        }
                    }
                }
                (mask, None, steps)
            })
            .collect();
        let mut bad = 0;
        for (mask, v, steps) in res {
            rep.add_states(1);
            rep.add_traces(4);
            rep.add_transitions(steps);
            rep.add_nontrivial(1);
            if let Some((class, detail, h)) = v {
                bad += 1;
                rep.violation(Violation { class, kinds: vec!["gap_family".to_string(), format!("edges={}", mask.count_ones())], replay: json!({"engine":"seq","history": show_history(&h)}), detail });
            }
        }
        rep.set("gap_family", json!({"edge_subsets": subsets.len(), "violating": bad}));
    }
    rep.finish()
}

// ---------------------------------------------------------------------------------------------
// C06 Storage reads agree with a graph model
// ---------------------------------------------------------------------------------------------

pub fn c06(tier: Tier) -> i32 {
    let rep = Report::new("C06", tier);
    rep.rule("all enabled write-only histories (single-op transactions plus two-op transactions) up to the stated depth; after the last commit the full dump must equal the reference GraphModel and the read interfaces must agree with each other; non-trivial = every history (each ends in a commit)");
    let nodes = vec![1u64, 2];
    let base = sigma_write(&nodes, true);
    let mut alphabet = base.clone();
    // two-op transactions over a reduced alphabet
    let small = sigma_write(&nodes, false);
    if tier == Tier::Thorough {
        for a in &small {
            for b in &small {
                alphabet.push(Op::Tx(vec![a.clone(), b.clone()]));
            }
        }
    } else {
        let picks: Vec<&Op> = small.iter().filter(|o| matches!(o, Op::CreateEdge { .. } | Op::DeleteEdge { .. } | Op::SetEdgeProp { .. } | Op::SetNodeProp { .. } | Op::RemoveNodeProp { .. } | Op::DeleteNode { .. })).collect();
        for a in &picks {
            for b in &picks {
                alphabet.push(Op::Tx(vec![(*a).clone(), (*b).clone()]));
            }
        }
    }
    let ex = Explorer { rep: &rep, alphabet, node_ids: nodes, max_depth: tier.pick(3, 4), wall_cap_s: tier.pick(45.0, 1500.0), prune_violating: true };
    ex.run(&|h: &[Op]| {
        let mut out = Outcome { violations: vec![], runs: 1, steps: 0, label: String::new(), nontrivial: true };
        let r = run_history(h);
        out.steps = r.steps;
        if let Some((i, e)) = r.failed_at {
            let class = format!("write_failed:{}", err_class(&e));
            out.label = class.clone();
            out.violations.push(viol(&class, &h[..=i], e, json!({})));
            return out;
        }
        let d = r.sut.as_ref().unwrap().dump(&spec());
        let bad = d.check_model(&r.model, true);
        out.label = if bad.is_empty() { "agree".into() } else { bad.iter().map(|b| b.0.clone()).collect::<Vec<_>>().join("|") };
        for (class, detail) in bad {
            out.violations.push(viol(&class, h, detail, json!({"dump": d.to_json()})));
        }
        out
    });
    rep.finish()
}

// ---------------------------------------------------------------------------------------------
// C07 Uncommitted transactions leave no trace (differential)
// ---------------------------------------------------------------------------------------------

fn vector_probe(sut: &Sut, d: &mut Dump) {
    let db = sut.db();
    for q in [[0i8, 0], [1, 1], [3, 0]] {
        for k in [1usize, 3] {
            let name = format!("q={q:?},k={k}");
            match catch(|| db.search_vector(&[q[0] as f32, q[1] as f32], k)) {
                Ok(Ok(hits)) => {
                    let snap = db.snapshot();
                    d.vec.insert(name, hits.iter().map(|(i, dist)| (snap.resolve_external(*i).unwrap_or(u64::MAX), format!("{dist:.4}"))).collect());
                }
                Ok(Err(e)) => d.problems.push(format!("search_vector: {e}")),
                Err(p) => d.problems.push(p),
            }
        }
    }
}

use nervusdb::GraphSnapshot;

pub fn c07(tier: Tier) -> i32 {
    let rep = Report::new("C07", tier);
    rep.rule("all enabled base histories g (writes, SetVector, Compact, DropOpen) up to the stated depth; for every position i and every write body a enabled there, g with Abandon[a] inserted at i (transaction begun, written to, then dropped) must give the same final dump, the same vector-search answers and the same dump after reopen as g; non-trivial = one (g,i,a) triple");
    let nodes = vec![1u64, 2];
    let mut alphabet = sigma_write(&nodes, false);
    alphabet.push(Op::SetVector { e: 1, v: [1, 1] });
    alphabet.push(Op::SetVector { e: 2, v: [3, 0] });
    alphabet.push(Op::Compact);
    alphabet.push(Op::DropOpen);
    alphabet.push(Op::CreateIndex { l: "A", k: "k" });
    let mut bodies = sigma_write(&nodes, false);
    bodies.push(Op::SetVector { e: 1, v: [0, 0] });
    bodies.push(Op::SetVector { e: 2, v: [0, 0] });
    bodies.push(Op::CreateNode { e: 3, labels: vec!["Z"] });
    bodies.push(Op::CreateEdge { s: 1, t: "T", d: 1 });
    let mut sp = spec();
    sp.index_probes = vec![("A".into(), "k".into(), nervusdb::PropertyValue::Int(1)), ("A".into(), "k".into(), nervusdb::PropertyValue::Int(2))];
    let sp = &sp;
    let bodies = &bodies;
    let observe = |h: &[Op]| -> (Result<(Dump, Dump), (usize, String)>, u64) {
        let mut r = run_history(h);
        if let Some(f) = r.failed_at.clone() {
            return (Err(f), r.steps);
        }
        let sut = r.sut.as_mut().unwrap();
        let mut d1 = sut.dump(sp);
        vector_probe(sut, &mut d1);
        let m = r.model.clone();
        if let Err(e) = sut.apply(&Op::DropOpen, &m) {
            return (Err((h.len(), e)), r.steps);
        }
        let mut d2 = sut.dump(sp);
        vector_probe(sut, &mut d2);
        (Ok((d1, d2)), r.steps + 1)
    };
    let ex = Explorer { rep: &rep, alphabet, node_ids: vec![1, 2], max_depth: tier.pick(3, 4), wall_cap_s: tier.pick(45.0, 1500.0), prune_violating: true };
    ex.run(&|g: &[Op]| {
        let mut out = Outcome { violations: vec![], runs: 1, steps: 0, label: String::new(), nontrivial: false };
        let (base, st) = observe(g);
        out.steps += st;
        let Ok((b1, b2)) = base else {
            out.label = "base_failed".into();
            return out;
        };
        let mut labels = std::collections::BTreeSet::new();
        for i in 0..=g.len() {
            let mut m = GraphModel::default();
            for o in &g[..i] {
                m.apply(o);
            }
            for a in bodies.iter() {
                if !m.enabled(a) {
                    continue;
                }
                let mut h = g.to_vec();
                h.insert(i, Op::Abandon(vec![a.clone()]));
                // the rest of g must still be enabled irrespective of the abandoned body (it is: Abandon is a model no-op)
                out.runs += 1;
                out.nontrivial = true;
                let (o, st) = observe(&h);
                out.steps += st;
                match o {
                    Err((j, e)) => {
                        let class = format!("step_failed_after_abandon:{}", err_class(&e));
                        labels.insert(class.clone());
                        out.violations.push(viol(&class, &h[..=j.min(h.len() - 1)], e, json!({})));
                    }
                    Ok((d1, d2)) => {
                        if let Some((class, detail)) = b1.diff(&d1) {
                            let class = format!("live:{class}");
                            labels.insert(class.clone());
                            out.violations.push(viol(&class, &h, detail, json!({"without": b1.to_json(), "with": d1.to_json()})));
                        } else if let Some((class, detail)) = b2.diff(&d2) {
                            let class = format!("reopened:{class}");
                            labels.insert(class.clone());
                            out.violations.push(viol(&class, &h, detail, json!({"without": b2.to_json(), "with": d2.to_json()})));
                        } else {
                            labels.insert("same".into());
                        }
                    }
                }
            }
        }
        out.label = labels.into_iter().collect::<Vec<_>>().join("|");
        out
    });
    rep.assume("abandonment is modelled by dropping the storage WriteTxn (what ndb_txn_rollback and a dropped Rust WriteTxn do); statement-level abandonment through the C API is covered by C13");
    rep.finish()
}

// ---------------------------------------------------------------------------------------------
// C28 Vacuum preserves the database
// ---------------------------------------------------------------------------------------------

pub fn c28(tier: Tier) -> i32 {
    let rep = Report::new("C28", tier);
    rep.rule("all enabled histories (writes, SetVector, Compact, CreateIndex, CloseOpen) up to the stated depth; then close, vacuum, open: vacuum must succeed, the dump (both traversal directions, properties, labels, index lookups, vector search) must be unchanged, a further transaction must commit and survive another reopen; plus a vector volume family (30..200 vectors: the HNSW storage trees span several pages; vacuum with and without a preceding reopen; vector search unchanged, also after another reopen); non-trivial = history containing a Compact (a segment exists)");
    let nodes = vec![1u64, 2];
    let mut alphabet = sigma_write(&nodes, false);
    alphabet.push(Op::SetVector { e: 1, v: [1, 1] });
    alphabet.push(Op::SetNodeProp { e: 1, k: "big", v: Val::S(big_value()) });
    alphabet.push(Op::Compact);
    alphabet.push(Op::CreateIndex { l: "A", k: "k" });
    alphabet.push(Op::CloseOpen);
    let mut sp = spec();
    sp.index_probes = vec![("A".into(), "k".into(), nervusdb::PropertyValue::Int(1)), ("A".into(), "k".into(), nervusdb::PropertyValue::Int(2))];
    let sp = &sp;
    let ex = Explorer { rep: &rep, alphabet, node_ids: nodes, max_depth: tier.pick(3, 4), wall_cap_s: tier.pick(45.0, 1500.0), prune_violating: true };
    ex.run(&|h: &[Op]| {
        let mut out = Outcome { violations: vec![], runs: 1, steps: 0, label: String::new(), nontrivial: h.contains(&Op::Compact) };
        let mut r = run_history(h);
        out.steps = r.steps;
        if r.failed_at.is_some() {
            out.label = "base_failed".into();
            return out;
        }
        let sut = r.sut.as_mut().unwrap();
        let mut before = sut.dump(sp);
        vector_probe(sut, &mut before);
        let mut hh = h.to_vec();
        hh.push(Op::Vacuum);
        let model = r.model.clone();
        if let Err(e) = sut.apply(&Op::Vacuum, &model) {
            let class = format!("vacuum_failed:{}", err_class(&e));
            out.label = class.clone();
            out.violations.push(viol(&class, &hh, e, json!({})));
            return out;
        }
        let mut after = sut.dump(sp);
        vector_probe(sut, &mut after);
        if let Some((class, detail)) = before.diff(&after) {
            out.label = class.clone();
            out.violations.push(viol(&class, &hh, detail, json!({"before": before.to_json(), "after": after.to_json()})));
            return out;
        }
        // still usable: one more transaction, reopen, compare with the model
        let marker = Op::CreateNode { e: 77, labels: vec!["M"] };
        let mut m2 = model.clone();
        hh.push(marker.clone());
        hh.push(Op::DropOpen);
        let res = sut.apply(&marker, &m2).and_then(|_| {
            m2.apply(&marker);
            sut.apply(&Op::DropOpen, &m2)
        });
        out.steps += 3;
        match res {
            Err(e) => {
                let class = format!("unusable_after_vacuum:{}", err_class(&e));
                out.label = class.clone();
                out.violations.push(viol(&class, &hh, e, json!({})));
            }
            Ok(()) => {
                let d = sut.dump(sp);
                if !d.nodes.contains_key(&77) {
                    out.label = "marker_lost_after_vacuum".into();
                    out.violations.push(viol("marker_lost_after_vacuum", &hh, "marker node 77 missing after reopen".into(), json!({"dump": d.to_json()})));
                } else {
                    // everything except the marker must still equal the pre-vacuum dump
                    let mut d2 = d.clone();
                    d2.nodes.remove(&77);
                    let mut b = before.clone();
                    b.vec.clear();
                    if let Some((class, detail)) = b.diff(&d2) {
                        let class = format!("after_marker:{class}");
                        out.label = class.clone();
                        out.violations.push(viol(&class, &hh, detail, json!({})));
                    } else {
                        out.label = "preserved".into();
                    }
                }
            }
        }
        out
    });
    // vector volume family: enough vectors for the HNSW storage trees to grow past one page, with and without
    // a reopen (fresh handle: catalog roots as loaded from disk) before the vacuum
    {
        let sizes: Vec<u32> = tier.pick(vec![60, 120], vec![30, 60, 90, 120, 200]);
        let res: Vec<(u32, bool, Option<(String, String)>)> = sizes
            .par_iter()
            .flat_map_iter(|&n| [(n, false), (n, true)])
            .map(|(n, reopen_first)| {
                let mut h: Vec<Op> = vec![Op::CreateNodes { base: 3000, n }];
                for chunk in (1..=n as u64).collect::<Vec<_>>().chunks(30) {
                    h.push(Op::Tx(chunk.iter().map(|i| Op::SetVector { e: 3000 + i, v: [(i % 11) as i8, (i / 11) as i8] }).collect()));
                }
                let mut r = run_history(&h);
                if let Some((i, e)) = &r.failed_at {
                    return (n, reopen_first, Some((format!("volume:step_failed:{}", h[*i].kind()), e.clone())));
                }
                let model = r.model.clone();
                let sut = r.sut.as_mut().unwrap();
                let mut before = Dump::default();
                vector_probe(sut, &mut before);
                if reopen_first {
                    if let Err(e) = sut.apply(&Op::CloseOpen, &model) {
                        return (n, reopen_first, Some((format!("volume:reopen_failed:{}", err_class(&e)), e)));
                    }
                    let mut reopened = Dump::default();
                    vector_probe(sut, &mut reopened);
                    if before.vec != reopened.vec || !reopened.problems.is_empty() {
                        return (n, reopen_first, Some(("volume:vector_search_changed_by_reopen".to_string(), format!("before {:?} / after close + open {:?} {:?}", before.vec.get("q=[1, 1],k=3"), reopened.vec.get("q=[1, 1],k=3"), reopened.problems))));
                    }
                }
                if let Err(e) = sut.apply(&Op::Vacuum, &model) {
                    return (n, reopen_first, Some((format!("volume:vacuum_failed:{}", err_class(&e)), e)));
                }
                let mut after = Dump::default();
                vector_probe(sut, &mut after);
                if before.vec != after.vec || before.problems != after.problems {
                    return (n, reopen_first, Some(("volume:vector_search_changed_by_vacuum".to_string(), format!("before {:?} {:?} / after {:?} {:?}", before.vec.get("q=[1, 1],k=3"), before.problems, after.vec.get("q=[1, 1],k=3"), after.problems))));
                }
                // and once more after another reopen
                if let Err(e) = sut.apply(&Op::DropOpen, &model) {
                    return (n, reopen_first, Some((format!("volume:reopen_after_vacuum_failed:{}", err_class(&e)), e)));
                }
                let mut again = Dump::default();
                vector_probe(sut, &mut again);
                if before.vec != again.vec || !again.problems.is_empty() {
                    return (n, reopen_first, Some(("volume:vector_search_changed_after_vacuum_and_reopen".to_string(), format!("{:?}", again.problems))));
                }
                (n, reopen_first, None)
            })
            .collect();
        for (n, reopen_first, v) in res {
            rep.add_states(1);
            rep.add_traces(1);
            rep.add_transitions(n as u64 / 30 + 4);
            rep.add_nontrivial(1);
            if let Some((class, detail)) = v {
                rep.outcome(&class);
                rep.violation(Violation { class, kinds: vec!["vector_volume".to_string(), format!("vectors={n}"), format!("reopen_before_vacuum={reopen_first}")], replay: json!({"engine":"seq","family":"vector_volume","vectors": n, "reopen_before_vacuum": reopen_first}), detail });
            } else {
                rep.outcome("volume:preserved");
            }
        }
    }
    rep.finish()
}

// ---------------------------------------------------------------------------------------------
// C18 Growing one structure never corrupts another
// ---------------------------------------------------------------------------------------------

pub fn c18(tier: Tier) -> i32 {
    use crate::rt::{Recorder, with_hooks};
    let rep = Report::new("C18", tier);
    rep.rule("all enabled histories over {CreateNodes(n) for n in 1,511,512,513,1025, property writes (short and 2000-byte keys), relationship writes, Compact, CreateIndex + indexed write, SetVector, DropOpen, CloseOpen} up to the stated depth, executed on the real engine with a page-ownership monitor on every page write (owner tag recorded when the page is allocated must equal the tag of the writing structure); oracle: no foreign write, dump == GraphModel at the end and after reopen, and vacuum's reachability walk succeeds with an unchanged dump; non-trivial = history whose node table crosses a page boundary (>= 512 nodes)");
    let nodes = vec![1u64, 2];
    let mut alphabet: Vec<Op> = Vec::new();
    let bases = [1000u64, 3000, 5000, 7000, 9000];
    for (i, n) in [1u32, 511, 512, 513, 1025].iter().enumerate() {
        alphabet.push(Op::CreateNodes { base: bases[i], n: *n });
    }
    alphabet.push(Op::Tx(vec![
        Op::CreateNode { e: 1, labels: vec!["A"] },
        Op::CreateNode { e: 2, labels: vec!["A"] },
        Op::CreateEdge { s: 1, t: "R", d: 2 },
        Op::SetNodeProp { e: 1, k: "k", v: Val::I(1) },
        Op::SetNodeProp { e: 1, k: k_long(), v: Val::I(1) },
        Op::SetEdgeProp { s: 1, t: "R", d: 2, k: "k", v: Val::I(1) },
    ]));
    alphabet.push(Op::SetNodeProp { e: 2, k: k_long(), v: Val::S("s") });
    alphabet.push(Op::SetNodeProp { e: 2, k: "big", v: Val::S(big_value()) });
    alphabet.push(Op::SetNodeProp { e: 1, k: "k", v: Val::I(2) });
    alphabet.push(Op::CreateEdge { s: 2, t: "R", d: 1 });
    alphabet.push(Op::SetVector { e: 1, v: [1, 1] });
    alphabet.push(Op::Compact);
    alphabet.push(Op::CreateIndex { l: "A", k: "k" });
    alphabet.push(Op::DropOpen);
    alphabet.push(Op::CloseOpen);
    let mut sp = spec();
    sp.index_probes = vec![("A".into(), "k".into(), nervusdb::PropertyValue::Int(1)), ("A".into(), "k".into(), nervusdb::PropertyValue::Int(2))];
    let sp = &sp;
    let ex = Explorer { rep: &rep, alphabet, node_ids: nodes, max_depth: tier.pick(3, 4), wall_cap_s: tier.pick(50.0, 2400.0), prune_violating: true };
    ex.run(&|h: &[Op]| {
        let total_nodes: u32 = h.iter().map(|o| if let Op::CreateNodes { n, .. } = o { *n } else { 0 }).sum();
        let mut out = Outcome { violations: vec![], runs: 1, steps: 0, label: String::new(), nontrivial: total_nodes >= 512 };
        let mon = Recorder::new_monitor();
        let mut r = with_hooks(mon.clone(), || run_history(h));
        out.steps = r.steps;
        let foreign = mon.foreign_writes.lock().unwrap().clone();
        if let Some(f) = foreign.first() {
            let who: Vec<&str> = f.split('\'').collect();
            let class = format!("foreign_page_write:{}->{}", who.get(3).unwrap_or(&"?"), who.get(1).unwrap_or(&"?"));
            out.label = class.clone();
            out.violations.push(viol(&class, h, format!("{} foreign writes, first: {f}", foreign.len()), json!({})));
            return out;
        }
        if let Some((i, e)) = r.failed_at.clone() {
            let class = format!("step_failed:{}:{}", h[i].kind(), err_class(&e));
            out.label = class.clone();
            out.violations.push(viol(&class, &h[..=i], e, json!({})));
            return out;
        }
        let model = r.model.clone();
        let sut = r.sut.as_mut().unwrap();
        let d = sut.dump(sp);
        if let Some((class, detail)) = d.check_model(&model, true).into_iter().find(|(c, _)| !c.starts_with("label") || true) {
            out.label = class.clone();
            out.violations.push(viol(&class, h, detail, json!({})));
            return out;
        }
        for step in [Op::DropOpen, Op::Vacuum] {
            let mut hh = h.to_vec();
            hh.push(step.clone());
            out.steps += 1;
            let res = with_hooks(mon.clone(), || sut.apply(&step, &model));
            if let Err(e) = res {
                let class = format!("{}_failed:{}", step.kind(), err_class(&e));
                out.label = class.clone();
                out.violations.push(viol(&class, &hh, e, json!({})));
                return out;
            }
            let d2 = sut.dump(sp);
            if let Some((class, detail)) = d.diff(&d2) {
                let class = format!("after_{}:{class}", step.kind());
                out.label = class.clone();
                out.violations.push(viol(&class, &hh, detail, json!({})));
                return out;
            }
        }
        let foreign = mon.foreign_writes.lock().unwrap().clone();
        if let Some(f) = foreign.first() {
            out.label = "foreign_page_write_on_reopen".into();
            out.violations.push(viol("foreign_page_write_on_reopen", h, f.clone(), json!({})));
            return out;
        }
        out.label = "intact".into();
        out
    });
    rep.assume("page ownership is tracked by structure kind (idmap, btree, blob, csr, catalog); two B-trees writing each other's pages would not be told apart by the monitor, only by the dump oracle");
    rep.finish()
}
