//! C33: execution limits fail cleanly - queries x limit settings x every timeout position.
use crate::common::*;
use crate::qry::*;
use crate::rt::with_hooks;
use nervusdb::query::{ExecuteOptions, Params, prepare};
use nervusdb_storage::verif::Hooks;
use rayon::prelude::*;
use serde_json::json;
use std::sync::atomic::{AtomicU64, Ordering};

/// Scripted "elapsed milliseconds": 0 for the first `expire_at` checks, far beyond any timeout afterwards.
struct ElapsedScript {
    calls: AtomicU64,
    expire_at: u64,
}
impl Hooks for ElapsedScript {
    fn elapsed_ms(&self) -> Option<u64> {
        let i = self.calls.fetch_add(1, Ordering::SeqCst);
        Some(if i >= self.expire_at { 1_000_000_000 } else { 0 })
    }
    fn now_nanos(&self) -> Option<i64> {
        Some(1_700_000_000_000_000_000 + self.calls.load(Ordering::SeqCst) as i64)
    }
    fn hnsw_level(&self) -> Option<usize> {
        Some(0)
    }
}

const QUERIES: [(&str, bool); 71] = [
    ("UNWIND range(1, 6) AS x RETURN x", false),
    ("UNWIND range(1, 4) AS x UNWIND range(1, 4) AS y RETURN x, y", false),
    ("UNWIND [1, 2, 3, 4, 5, 6] AS x RETURN x", false),
    ("MATCH (a), (b) RETURN a.uid AS a, b.uid AS b", false),
    ("MATCH (a), (b), (c) RETURN count(*) AS c", false),
    ("MATCH (a)-[*1..3]->(b) RETURN a.uid AS a, b.uid AS b", false),
    ("MATCH (a)-[*]-(b) RETURN a.uid AS a, b.uid AS b", false),
    ("MATCH p = (a)-[*1..3]->(b) RETURN length(p) AS l", false),
    ("UNWIND range(1, 6) AS x RETURN collect(x) AS c", false),
    ("UNWIND range(1, 6) AS x RETURN count(x) AS c, sum(x) AS s", false),
    ("UNWIND range(1, 6) AS x RETURN x % 2 AS g, count(*) AS c, collect(x) AS xs", false),
    ("UNWIND range(1, 6) AS x WITH x ORDER BY x DESC RETURN x", true),
    ("UNWIND range(1, 6) AS x RETURN x ORDER BY x % 3, x", true),
    ("UNWIND range(1, 6) AS x RETURN DISTINCT x % 3 AS m", false),
    ("RETURN range(1, 6) AS r", false),
    ("RETURN size(range(1, 6)) AS s", false),
    ("RETURN [x IN range(1, 6) | x * 2] AS l", false),
    ("RETURN [x IN range(1, 6) WHERE x % 2 = 0] AS l", false),
    ("RETURN reduce(a = 0, x IN range(1, 6) | a + x) AS s", false),
    ("RETURN range(1, 3) + range(4, 6) AS l", false),
    ("UNWIND range(1, 3) AS x CALL { WITH x UNWIND range(1, 3) AS y RETURN y } RETURN x, y", false),
    ("UNWIND range(1, 3) AS x CALL { UNWIND range(1, 3) AS y RETURN count(y) AS c } RETURN x, c", false),
    ("MATCH (a) OPTIONAL MATCH (a)-->(b) RETURN a.uid AS a, b.uid AS b", false),
    ("MATCH (a) OPTIONAL MATCH (a)-->(b) WHERE b.uid > 2 RETURN a.uid AS a, b.uid AS b", false),
    ("MATCH (a) WHERE EXISTS { MATCH (a)-->() } RETURN a.uid AS a", false),
    ("MATCH (a) RETURN a.uid AS a, size([(a)-->(b) | b.uid]) AS d", false),
    ("UNWIND range(1, 6) AS x RETURN x LIMIT 2", false),
    ("UNWIND range(1, 6) AS x RETURN x SKIP 4", false),
    ("UNWIND range(1, 6) AS x WITH x LIMIT 3 RETURN count(*) AS c", false),
    ("UNWIND range(1, 3) AS x RETURN x UNION ALL UNWIND range(4, 6) AS x RETURN x", false),
    ("UNWIND range(1, 4) AS x RETURN x % 2 AS m UNION UNWIND range(1, 4) AS x RETURN x % 2 AS m", false),
    ("MATCH (a)-->(b) WITH a, collect(b.uid) AS bs RETURN a.uid AS a, bs", false),
    ("MATCH (a) WITH collect(a.uid) AS ids UNWIND ids AS i RETURN i", false),
    ("MATCH (a)-->(b)-->(c) RETURN a.uid AS a, c.uid AS c", false),
    ("MATCH (a)-->(b), (c)-->(d) RETURN count(*) AS c", false),
    ("UNWIND range(1, 6) AS x WITH x WHERE x > 2 RETURN x", false),
    ("UNWIND range(1, 6) AS x RETURN min(x) AS lo, max(x) AS hi, avg(x) AS av", false),
    ("MATCH (a) RETURN a.uid AS a ORDER BY a.uid DESC LIMIT 3", true),
    ("UNWIND range(1, 3) AS x MATCH (a) RETURN x, a.uid AS a", false),
    ("MATCH (a) UNWIND range(1, 2) AS x RETURN DISTINCT a.uid AS a", false),
    ("UNWIND range(1, 6) AS x WITH x SKIP 2 RETURN x", false),
    ("UNWIND range(1, 6) AS x WITH x SKIP 2 LIMIT 2 RETURN count(*) AS c", false),
    ("UNWIND range(1, 6) AS x WITH x ORDER BY x DESC SKIP 1 RETURN collect(x) AS c", false),
    ("MATCH (a) CALL { WITH a MATCH (a)-[*1..2]->(b) RETURN count(b) AS c } RETURN a.uid AS a, c", false),
    ("MATCH (a) CALL { WITH a MATCH (a)-->(b) RETURN b } RETURN a.uid AS a, b.uid AS b", false),
    ("MATCH (a) WHERE NOT EXISTS { MATCH (a)-[*1..3]->(b) WHERE b.uid = 4 } RETURN a.uid AS a", false),
    ("MATCH (a) RETURN a.uid AS a, [(a)-[*1..2]->(b) | b.uid] AS bs", false),
    ("MATCH (a) OPTIONAL MATCH (a)-[*1..3]->(b) RETURN a.uid AS a, count(b) AS c", false),
    ("MATCH (a) OPTIONAL MATCH (a)-->(b) OPTIONAL MATCH (b)-->(c) RETURN a.uid AS a, c.uid AS c", false),
    ("UNWIND range(1, 3) AS x UNWIND range(1, x) AS y RETURN x, collect(y) AS ys", false),
    ("UNWIND range(1, 4) AS x WITH collect(x) AS xs UNWIND xs AS a UNWIND xs AS b RETURN count(*) AS c", false),
    ("MATCH (a) WITH a ORDER BY a.uid LIMIT 4 MATCH (a)-->(b) RETURN a.uid AS a, b.uid AS b", false),
    ("MATCH (a)-[r]->(b) RETURN type(r) AS t, count(*) AS c ORDER BY t", true),
    ("MATCH (a) RETURN labels(a) AS l, collect(a.uid) AS ids", false),
    ("UNWIND range(1, 6) AS x RETURN x, x * x AS sq ORDER BY sq DESC SKIP 1 LIMIT 3", true),
    ("UNWIND range(1, 6) AS x WITH DISTINCT x % 2 AS m RETURN collect(m) AS ms", false),
    ("UNWIND range(1, 5) AS x RETURN x UNION UNWIND range(3, 7) AS x RETURN x", false),
    ("MATCH (a), (b) WHERE a.uid < b.uid RETURN count(*) AS c", false),
    ("MATCH (a) WHERE any(x IN range(1, 6) WHERE x = a.uid) RETURN a.uid AS a", false),
    ("RETURN [x IN range(1, 4) | [y IN range(1, x) | y]] AS l", false),
    // ranges that exceed every limit: the only acceptable outcome is a resource-limit error
    ("RETURN size(range(1, -9223372036854775807, -1)) AS x", false),
    ("RETURN size(range(-9223372036854775808, 9223372036854775807)) AS x", false),
    ("RETURN size(range(9223372036854775807, -9223372036854775808, -1)) AS x", false),
    ("UNWIND range(0, 9223372036854775807) AS x RETURN count(x) AS c", false),
    ("UNWIND range(0, -9223372036854775808, -1) AS x RETURN count(x) AS c", false),
    // EXISTS subqueries in projection position (their errors travel through the deferred-error channel)
    ("MATCH (a) RETURN a.uid AS a, EXISTS { MATCH (a)-[*1..3]->(b) WHERE b.uid = 4 } AS e", false),
    ("MATCH (a) WITH a, EXISTS { MATCH (a)-[*1..3]->(b) } AS e WHERE e RETURN a.uid AS a", false),
    ("MATCH (a) WITH a, NOT EXISTS { MATCH (a)-[*1..3]->(b) WHERE b.uid = 4 } AS e RETURN a.uid AS a, e ORDER BY a", true),
    ("MATCH (a) UNWIND [EXISTS { MATCH (a)-[*1..2]->(b) }] AS e RETURN a.uid AS a, e", false),
    ("MATCH (a) RETURN count(CASE WHEN EXISTS { MATCH (a)-[*1..3]->(b) } THEN 1 END) AS c", false),
    ("UNWIND range(1, 3) AS x CALL { WITH x MATCH (a) WHERE EXISTS { MATCH (a)-[*1..2]->(b) } RETURN count(a) AS c } RETURN x, c", false),
];

#[derive(Clone, Copy, Debug, PartialEq, Eq, Hash)]
enum Limit {
    Rows(usize),
    Items(usize),
    Apply(usize),
    /// the scripted elapsed time passes the timeout at the k-th timeout check
    TimeoutAt(u64),
}

impl Limit {
    fn kind(&self) -> String {
        match self {
            Limit::Rows(_) => "max_intermediate_rows".into(),
            Limit::Items(_) => "max_collection_items".into(),
            Limit::Apply(_) => "max_apply_rows_per_outer".into(),
            Limit::TimeoutAt(_) => "soft_timeout".into(),
        }
    }
}

type Rows = Vec<CRow>;

struct Outcome {
    result: Result<Rows, String>,
    timeout_checks: u64,
}

fn run(db: &QDb, q: &str, limit: Option<Limit>) -> Outcome {
    let expire_at = match limit {
        Some(Limit::TimeoutAt(k)) => k,
        _ => u64::MAX,
    };
    let hook = std::sync::Arc::new(ElapsedScript { calls: AtomicU64::new(0), expire_at });
    let h2: std::sync::Arc<dyn Hooks> = hook.clone();
    let result = with_hooks(h2, || {
        catch(|| -> Result<Rows, String> {
            let mut params = Params::new();
            let mut o = ExecuteOptions::default();
            match limit {
                Some(Limit::Rows(n)) => o.max_intermediate_rows = n,
                Some(Limit::Items(n)) => o.max_collection_items = n,
                Some(Limit::Apply(n)) => o.max_apply_rows_per_outer = n,
                Some(Limit::TimeoutAt(_)) => o.soft_timeout_ms = 1000,
                None => {}
            }
            params.set_execute_options(o);
            let p = prepare(q).map_err(|e| format!("compile: {e}"))?;
            let snap = db.db().snapshot();
            let mut out = Vec::new();
            for row in p.execute_streaming(&snap, &params) {
                let row = row.map_err(|e| format!("{e}"))?;
                out.push(row.columns().iter().map(|(_, v)| canon(&snap, v)).collect::<CRow>());
            }
            Ok(out)
        })
        .unwrap_or_else(Err)
    });
    Outcome { result, timeout_checks: hook.calls.load(Ordering::SeqCst) }
}

pub fn c33(tier: Tier) -> i32 {
    let rep = Report::new("C33", tier);
    let sizes: Vec<usize> = if tier == Tier::Thorough { (0..=130).collect() } else { (0..=40).collect() };
    rep.rule(&format!("{} queries with large intermediate results relative to the limits (cartesian products, UNWIND of ranges, variable-length expansion, aggregation, ORDER BY, DISTINCT, comprehensions, CALL {{}}, OPTIONAL MATCH, UNION, SKIP / LIMIT) on a fixed 5-node graph x every setting of one limit: max_intermediate_rows, max_collection_items, max_apply_rows_per_outer in {:?}, and the soft timeout expiring at EVERY timeout check position k = 0..=T (T = number of timeout checks of the unlimited run; the elapsed time is a scripted hook); plus ranges over the whole i64 span (every run must end in a resource-limit error); oracle: the limited run returns exactly the rows of the unlimited run (same multiset; same sequence for ordered queries) or fails with ResourceLimitExceeded - never other rows, another error or a panic; after the scripted time has expired at most 8 further timeout checks happen, a constant of the operator pipeline depth that does not grow with the data (bounded extra work; the unlimited runs perform up to several dozen checks); non-trivial = limited runs that hit their limit", QUERIES.len(), sizes));
    let cases: Vec<(usize, Option<Limit>)> = {
        // placeholder list; timeout positions are added per query below
        let mut v = Vec::new();
        for qi in 0..QUERIES.len() {
            for &n in &sizes {
                v.push((qi, Some(Limit::Rows(n))));
                v.push((qi, Some(Limit::Items(n))));
                v.push((qi, Some(Limit::Apply(n))));
            }
        }
        v
    };
    // per-thread database (built once per worker)
    let setup = |db: &QDb| {
        for s in ["CREATE (:A {uid: 1})-[:R]->(:A {uid: 2})-[:R]->(:B {uid: 3})-[:R]->(:B {uid: 4})", "MATCH (a {uid: 1}), (c {uid: 3}) CREATE (a)-[:S]->(c), (c)-[:S]->(a)", "CREATE (:C {uid: 5})"] {
            db.write(s, &Params::new()).expect("setup");
        }
    };
    // unlimited baselines + timeout check counts
    let base_db = QDb::new();
    setup(&base_db);
    let baselines: Vec<Outcome> = QUERIES.iter().map(|(q, _)| run(&base_db, q, None)).collect();
    for (i, b) in baselines.iter().enumerate() {
        if let Err(e) = &b.result {
            // queries that exceed even the default limits: every run must end in a resource-limit error
            if !e.contains("ResourceLimitExceeded") {
                rep.violation(Violation { class: "unlimited_run_fails_with_another_error".into(), kinds: vec![format!("q{i}")], replay: json!({"query": QUERIES[i].0}), detail: e.clone() });
            }
        }
    }
    let mut all_cases = cases;
    for (qi, b) in baselines.iter().enumerate() {
        for k in 0..=b.timeout_checks {
            all_cases.push((qi, Some(Limit::TimeoutAt(k))));
        }
    }
    rep.set("cases", json!({"queries": QUERIES.len(), "size_limit_cases": QUERIES.len() * sizes.len() * 3, "timeout_position_cases": all_cases.len() - QUERIES.len() * sizes.len() * 3, "timeout_checks_of_unlimited_runs": baselines.iter().map(|b| b.timeout_checks).collect::<Vec<_>>()}));
    let results: Vec<(usize, Limit, Outcome)> = all_cases
        .par_iter()
        .map_init(
            || {
                let db = QDb::new();
                setup(&db);
                db
            },
            |db, (qi, lim)| (*qi, lim.unwrap(), run(db, QUERIES[*qi].0, *lim)),
        )
        .collect();
    for (qi, lim, oc) in results {
        let (q, ordered) = QUERIES[qi];
        let want = match &baselines[qi].result {
            Ok(w) => w,
            Err(_) => {
                rep.add_states(1);
                rep.add_transitions(1);
                rep.add_traces(1);
                match &oc.result {
                    Err(e) if e.contains("ResourceLimitExceeded") => {
                        rep.add_nontrivial(1);
                        rep.outcome("resource_limit_error");
                    }
                    other => {
                        let class = match other {
                            Err(e) if e.starts_with("PANIC") => "panic_under_limit",
                            Err(_) => "other_error_under_limit",
                            Ok(_) => "result_although_over_the_default_limits",
                        };
                        rep.outcome(class);
                        rep.violation(Violation { class: class.into(), kinds: vec![lim.kind(), format!("q:{}", QUERIES[qi].0.chars().take(40).collect::<String>())], replay: json!({"engine": "limits", "query": QUERIES[qi].0, "limit": format!("{lim:?}")}), detail: format!("{} with {lim:?}: {}", QUERIES[qi].0, match other { Ok(r) => format!("{} rows", r.len()), Err(e) => truncate(e, 200) }) });
                    }
                }
                continue;
            }
        };
        rep.add_states(1);
        rep.add_transitions(1);
        rep.add_traces(1);
        rep.add_evals(1);
        let kinds = vec![lim.kind(), format!("q:{}", q.split(" RETURN").next().unwrap_or(q).chars().take(40).collect::<String>())];
        let replay = json!({"engine": "limits", "query": q, "limit": format!("{lim:?}")});
        match &oc.result {
            Ok(rows) => {
                let same = if ordered { rows == want } else { same_multiset(rows, want) };
                if same {
                    rep.outcome("complete_result");
                } else {
                    let class = if rows.len() < want.len() { "silently_truncated" } else { "silently_altered" };
                    rep.outcome(class);
                    rep.violation(Violation { class: class.into(), kinds: kinds.clone(), replay: replay.clone(), detail: format!("{q} with {lim:?}: rows {} but the unlimited result is {}", truncate(&show_rows(rows), 200), truncate(&show_rows(want), 200)) });
                }
            }
            Err(e) if e.contains("ResourceLimitExceeded") => {
                rep.add_nontrivial(1);
                rep.outcome("resource_limit_error");
            }
            Err(e) => {
                let class = if e.starts_with("PANIC") { "panic_under_limit" } else { "other_error_under_limit" };
                rep.outcome(class);
                rep.violation(Violation { class: class.into(), kinds: kinds.clone(), replay: replay.clone(), detail: format!("{q} with {lim:?}: {e}") });
            }
        }
        if let Limit::TimeoutAt(k) = lim {
            let after = oc.timeout_checks.saturating_sub(k + 1);
            if after > 8 {
                rep.violation(Violation { class: "keeps_working_after_timeout".into(), kinds, replay, detail: format!("{q}: the timeout expired at check {k}, {after} further timeout checks followed (result: {})", match &oc.result { Ok(r) => format!("{} rows", r.len()), Err(e) => truncate(e, 80) }) });
            }
        }
    }
    rep.sample(json!({"query": QUERIES[1].0, "limit": "Rows(5)"}));
    rep.finish()
}
