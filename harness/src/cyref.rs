//! CypherRef: a small query AST, its Cypher text, an independent naive reference evaluator, and
//! the bounded graph / query enumerations used by the E-QUERY checks.
use crate::qry::{CRow, CV};
use std::collections::{BTreeMap, BTreeSet};

// ---------------------------------------------------------------------------------------------
// Graphs
// ---------------------------------------------------------------------------------------------

#[derive(Clone, Debug, PartialEq)]
pub struct QNode {
    pub uid: i64,
    pub labels: Vec<&'static str>,
    pub v: Option<CV>,
}

#[derive(Clone, Debug, PartialEq)]
pub struct QRel {
    pub src: usize,
    pub dst: usize,
    pub ty: &'static str,
}

#[derive(Clone, Debug, PartialEq, Default)]
pub struct QGraph {
    pub nodes: Vec<QNode>,
    pub rels: Vec<QRel>,
}

impl QGraph {
    pub fn show(&self) -> String {
        let ns: Vec<String> = self.nodes.iter().map(|n| format!("({}{}{})", n.uid, n.labels.iter().map(|l| format!(":{l}")).collect::<String>(), n.v.as_ref().map(|v| format!(" v={}", v.show())).unwrap_or_default())).collect();
        let rs: Vec<String> = self.rels.iter().map(|r| format!("{}-{}->{}", self.nodes[r.src].uid, r.ty, self.nodes[r.dst].uid)).collect();
        format!("{} | {}", ns.join(" "), rs.join(" "))
    }

    /// Builds the graph in a fresh database through the storage API.
    pub fn build(&self, db: &nervusdb::Db) -> Result<(), String> {
        use nervusdb_query::WriteableGraph;
        let mut tx = db.begin_write();
        let mut ids = Vec::new();
        for n in &self.nodes {
            let lid = match n.labels.first() {
                Some(l) => tx.get_or_create_label(l).map_err(|e| e.to_string())?,
                None => u32::MAX,
            };
            let iid = tx.create_node(n.uid as u64, lid).map_err(|e| e.to_string())?;
            for l in n.labels.iter().skip(1) {
                let lid = tx.get_or_create_label(l).map_err(|e| e.to_string())?;
                WriteableGraph::add_node_label(&mut tx, iid, lid).map_err(|e| e.to_string())?;
            }
            tx.set_node_property(iid, "uid".into(), nervusdb::PropertyValue::Int(n.uid)).map_err(|e| e.to_string())?;
            if let Some(v) = &n.v {
                let pv = match v {
                    CV::Int(i) => nervusdb::PropertyValue::Int(*i),
                    CV::Str(s) => nervusdb::PropertyValue::String(s.clone()),
                    CV::Bool(b) => nervusdb::PropertyValue::Bool(*b),
                    CV::Float(b) => nervusdb::PropertyValue::Float(f64::from_bits(*b)),
                    _ => nervusdb::PropertyValue::Null,
                };
                tx.set_node_property(iid, "v".into(), pv).map_err(|e| e.to_string())?;
            }
            ids.push(iid);
        }
        for r in &self.rels {
            let t = tx.get_or_create_rel_type(r.ty).map_err(|e| e.to_string())?;
            tx.create_edge(ids[r.src], t, ids[r.dst]);
        }
        tx.commit().map_err(|e| e.to_string())
    }
}

/// All graphs of scope G2: <= 2 nodes (labels from `label_sets`, v from `vals`), <= 2 relationships
/// over types {R,S}, self-loops allowed, no two relationships with the same (src,type,dst).
pub fn graphs_g2(label_sets: &[Vec<&'static str>], vals: &[Option<CV>], max_rels: usize) -> Vec<QGraph> {
    let mut node_kinds: Vec<(Vec<&'static str>, Option<CV>)> = Vec::new();
    for l in label_sets {
        for v in vals {
            node_kinds.push((l.clone(), v.clone()));
        }
    }
    let mut out = vec![QGraph::default()];
    for n in 1..=2usize {
        // node multisets up to renaming: kind indices non-decreasing
        let mut combos: Vec<Vec<usize>> = Vec::new();
        if n == 1 {
            for a in 0..node_kinds.len() {
                combos.push(vec![a]);
            }
        } else {
            for a in 0..node_kinds.len() {
                for b in a..node_kinds.len() {
                    combos.push(vec![a, b]);
                }
            }
        }
        let mut slots: Vec<(usize, usize, &'static str)> = Vec::new();
        for s in 0..n {
            for d in 0..n {
                for t in ["R", "S"] {
                    slots.push((s, d, t));
                }
            }
        }
        // relationship sets of size <= max_rels
        let mut relsets: Vec<Vec<usize>> = vec![vec![]];
        for i in 0..slots.len() {
            relsets.push(vec![i]);
        }
        if max_rels >= 2 {
            for i in 0..slots.len() {
                for j in (i + 1)..slots.len() {
                    relsets.push(vec![i, j]);
                }
            }
        }
        for c in &combos {
            for rs in &relsets {
                let nodes: Vec<QNode> = c.iter().enumerate().map(|(i, k)| QNode { uid: (i + 1) as i64, labels: node_kinds[*k].0.clone(), v: node_kinds[*k].1.clone() }).collect();
                let rels: Vec<QRel> = rs.iter().map(|i| QRel { src: slots[*i].0, dst: slots[*i].1, ty: slots[*i].2 }).collect();
                out.push(QGraph { nodes, rels });
            }
        }
    }
    out
}

/// Hand-picked richer graphs for variable-length patterns.
pub fn graphs_rich() -> Vec<QGraph> {
    let n = |uid: i64, labels: Vec<&'static str>, v: Option<i64>| QNode { uid, labels, v: v.map(CV::Int) };
    let r = |s: usize, d: usize, t: &'static str| QRel { src: s, dst: d, ty: t };
    vec![
        QGraph { nodes: vec![n(1, vec!["A"], Some(1)), n(2, vec!["A"], Some(2)), n(3, vec!["B"], None)], rels: vec![r(0, 1, "R"), r(1, 2, "R")] },
        QGraph { nodes: vec![n(1, vec!["A"], Some(1)), n(2, vec!["B"], Some(2)), n(3, vec!["A", "B"], Some(1))], rels: vec![r(0, 1, "R"), r(1, 2, "S"), r(2, 0, "R")] },
        QGraph { nodes: vec![n(1, vec!["A"], Some(1)), n(2, vec![], Some(2)), n(3, vec!["B"], Some(2)), n(4, vec!["A"], None)], rels: vec![r(0, 1, "R"), r(0, 2, "R"), r(1, 3, "S"), r(2, 3, "R")] },
        QGraph { nodes: vec![n(1, vec!["A"], Some(2)), n(2, vec!["A"], Some(1)), n(3, vec!["A"], Some(2)), n(4, vec!["B"], Some(1))], rels: vec![r(0, 1, "R"), r(0, 2, "S"), r(0, 3, "R")] },
        QGraph { nodes: vec![n(1, vec!["A"], Some(1)), n(2, vec!["B"], Some(1))], rels: vec![r(0, 1, "R"), r(0, 1, "S"), r(1, 1, "R"), r(1, 0, "R")] },
        QGraph { nodes: vec![n(1, vec!["A"], None), n(2, vec!["A"], None), n(3, vec!["A"], Some(1))], rels: vec![r(0, 0, "R"), r(0, 1, "R"), r(1, 2, "R"), r(2, 1, "S")] },
    ]
}

// ---------------------------------------------------------------------------------------------
// AST
// ---------------------------------------------------------------------------------------------

#[derive(Clone, Debug, PartialEq)]
pub enum Ex {
    Prop(&'static str, &'static str),
    Var(&'static str),
    Lit(CV),
    Cmp(&'static str, Box<Ex>, Box<Ex>),
    IsNull(Box<Ex>, bool),
    HasLabel(&'static str, &'static str),
    Not(Box<Ex>),
    And(Box<Ex>, Box<Ex>),
    Or(Box<Ex>, Box<Ex>),
    Xor(Box<Ex>, Box<Ex>),
}

pub fn lit_text(v: &CV) -> String {
    match v {
        CV::Null => "null".into(),
        CV::Int(i) => i.to_string(),
        CV::Str(s) => format!("'{s}'"),
        CV::Bool(b) => b.to_string(),
        CV::Float(b) => format!("{:?}", f64::from_bits(*b)),
        CV::List(l) => format!("[{}]", l.iter().map(lit_text).collect::<Vec<_>>().join(", ")),
        other => other.show(),
    }
}

impl Ex {
    pub fn text(&self) -> String {
        match self {
            Ex::Prop(v, k) => format!("{v}.{k}"),
            Ex::Var(v) => v.to_string(),
            Ex::Lit(l) => lit_text(l),
            Ex::Cmp(op, a, b) => format!("{} {op} {}", a.text(), b.text()),
            Ex::IsNull(a, neg) => format!("{} IS {}NULL", a.text(), if *neg { "NOT " } else { "" }),
            Ex::HasLabel(v, l) => format!("{v}:{l}"),
            Ex::Not(a) => format!("NOT ({})", a.text()),
            Ex::And(a, b) => format!("({}) AND ({})", a.text(), b.text()),
            Ex::Or(a, b) => format!("({}) OR ({})", a.text(), b.text()),
            Ex::Xor(a, b) => format!("({}) XOR ({})", a.text(), b.text()),
        }
    }
    pub fn vars(&self, out: &mut BTreeSet<&'static str>) {
        match self {
            Ex::Prop(v, _) | Ex::Var(v) | Ex::HasLabel(v, _) => {
                out.insert(v);
            }
            Ex::Lit(_) => {}
            Ex::Cmp(_, a, b) | Ex::And(a, b) | Ex::Or(a, b) | Ex::Xor(a, b) => {
                a.vars(out);
                b.vars(out);
            }
            Ex::IsNull(a, _) | Ex::Not(a) => a.vars(out),
        }
    }
}

#[derive(Clone, Debug, PartialEq)]
pub struct NodeP {
    pub var: &'static str,
    pub label: Option<&'static str>,
    pub prop: Option<CV>,
}

#[derive(Clone, Copy, Debug, PartialEq)]
pub enum Dir {
    Out,
    In,
    Both,
}

#[derive(Clone, Debug, PartialEq)]
pub struct RelP {
    pub var: Option<&'static str>,
    pub types: Vec<&'static str>,
    pub dir: Dir,
    pub varlen: Option<(usize, usize)>,
}

#[derive(Clone, Debug, PartialEq)]
pub struct PathP {
    pub start: NodeP,
    pub steps: Vec<(RelP, NodeP)>,
}

impl NodeP {
    fn text(&self) -> String {
        format!("({}{}{})", self.var, self.label.map(|l| format!(":{l}")).unwrap_or_default(), self.prop.as_ref().map(|p| format!(" {{v: {}}}", lit_text(p))).unwrap_or_default())
    }
}

impl RelP {
    fn text(&self) -> String {
        let inner = format!("{}{}{}", self.var.unwrap_or(""), if self.types.is_empty() { String::new() } else { format!(":{}", self.types.join("|")) }, self.varlen.map(|(a, b)| format!("*{a}..{b}")).unwrap_or_default());
        let body = if inner.is_empty() { "-".to_string() } else { format!("-[{inner}]-") };
        match self.dir {
            Dir::Out => format!("{body}>"),
            Dir::In => format!("<{body}"),
            Dir::Both => body,
        }
    }
}

impl PathP {
    pub fn text(&self) -> String {
        let mut s = self.start.text();
        for (r, n) in &self.steps {
            s.push_str(&r.text());
            s.push_str(&n.text());
        }
        s
    }
    pub fn vars(&self) -> Vec<&'static str> {
        let mut v = vec![self.start.var];
        for (r, n) in &self.steps {
            if let Some(rv) = r.var {
                v.push(rv);
            }
            v.push(n.var);
        }
        v
    }
}

#[derive(Clone, Debug, PartialEq)]
pub enum Item {
    Ex(Ex),
    Labels(&'static str),
    Type(&'static str),
    CountStar,
    /// aggregate over an expression: count / sum / min / max / collect
    Agg(&'static str, Ex, bool),
}

impl Item {
    pub fn text(&self) -> String {
        match self {
            Item::Ex(e) => e.text(),
            Item::Labels(v) => format!("labels({v})"),
            Item::Type(v) => format!("type({v})"),
            Item::CountStar => "count(*)".into(),
            Item::Agg(f, e, d) => format!("{f}({}{})", if *d { "DISTINCT " } else { "" }, e.text()),
        }
    }
    pub fn is_agg(&self) -> bool {
        matches!(self, Item::CountStar | Item::Agg(..))
    }
}

#[derive(Clone, Debug, PartialEq)]
pub enum Clause {
    Match { optional: bool, parts: Vec<PathP>, wh: Option<Ex> },
    Unwind { items: Vec<CV>, var: &'static str },
    With { vars: Vec<&'static str>, wh: Option<Ex> },
    Return { distinct: bool, items: Vec<Item>, order: Vec<(usize, bool)>, skip: Option<usize>, limit: Option<usize> },
}

#[derive(Clone, Debug, PartialEq)]
pub struct Query {
    pub clauses: Vec<Clause>,
}

impl Query {
    pub fn text(&self) -> String {
        let mut parts = Vec::new();
        for c in &self.clauses {
            match c {
                Clause::Match { optional, parts: ps, wh } => {
                    parts.push(format!("{}MATCH {}{}", if *optional { "OPTIONAL " } else { "" }, ps.iter().map(|p| p.text()).collect::<Vec<_>>().join(", "), wh.as_ref().map(|w| format!(" WHERE {}", w.text())).unwrap_or_default()));
                }
                Clause::Unwind { items, var } => parts.push(format!("UNWIND [{}] AS {var}", items.iter().map(lit_text).collect::<Vec<_>>().join(", "))),
                Clause::With { vars, wh } => parts.push(format!("WITH {}{}", vars.join(", "), wh.as_ref().map(|w| format!(" WHERE {}", w.text())).unwrap_or_default())),
                Clause::Return { distinct, items, order, skip, limit } => {
                    let its: Vec<String> = items.iter().enumerate().map(|(i, it)| format!("{} AS c{i}", it.text())).collect();
                    let mut s = format!("RETURN {}{}", if *distinct { "DISTINCT " } else { "" }, its.join(", "));
                    if !order.is_empty() {
                        s.push_str(&format!(" ORDER BY {}", order.iter().map(|(i, d)| format!("c{i}{}", if *d { " DESC" } else { "" })).collect::<Vec<_>>().join(", ")));
                    }
                    if let Some(k) = skip {
                        s.push_str(&format!(" SKIP {k}"));
                    }
                    if let Some(k) = limit {
                        s.push_str(&format!(" LIMIT {k}"));
                    }
                    parts.push(s);
                }
            }
        }
        parts.join(" ")
    }
}

// ---------------------------------------------------------------------------------------------
// Reference evaluator
// ---------------------------------------------------------------------------------------------

#[derive(Clone, Debug, PartialEq)]
pub enum Bind {
    Node(usize),
    Rel(usize),
    Val(CV),
    Null,
}

pub type Env = BTreeMap<&'static str, Bind>;

/// three-valued logic: Some(true/false) or None (null)
type Tri = Option<bool>;

fn tri_of(v: &CV) -> Result<Tri, String> {
    match v {
        CV::Bool(b) => Ok(Some(*b)),
        CV::Null => Ok(None),
        other => Err(format!("not a boolean: {}", other.show())),
    }
}

fn tri_cv(t: Tri) -> CV {
    match t {
        Some(b) => CV::Bool(b),
        None => CV::Null,
    }
}

pub fn eval(g: &QGraph, env: &Env, e: &Ex) -> Result<CV, String> {
    Ok(match e {
        Ex::Lit(l) => l.clone(),
        Ex::Var(v) => match env.get(v) {
            Some(Bind::Val(c)) => c.clone(),
            Some(Bind::Null) | None => CV::Null,
            Some(Bind::Node(i)) => CV::Node(g.nodes[*i].uid),
            Some(Bind::Rel(i)) => CV::Rel(g.nodes[g.rels[*i].src].uid, g.rels[*i].ty.to_string(), g.nodes[g.rels[*i].dst].uid),
        },
        Ex::Prop(v, k) => match env.get(v) {
            Some(Bind::Node(i)) => match *k {
                "uid" => CV::Int(g.nodes[*i].uid),
                "v" => g.nodes[*i].v.clone().unwrap_or(CV::Null),
                _ => CV::Null,
            },
            _ => CV::Null,
        },
        Ex::HasLabel(v, l) => match env.get(v) {
            Some(Bind::Node(i)) => CV::Bool(g.nodes[*i].labels.contains(l)),
            _ => CV::Null,
        },
        Ex::IsNull(a, neg) => {
            let x = eval(g, env, a)?;
            CV::Bool((x == CV::Null) != *neg)
        }
        Ex::Not(a) => tri_cv(tri_of(&eval(g, env, a)?)?.map(|b| !b)),
        Ex::And(a, b) => {
            let (x, y) = (tri_of(&eval(g, env, a)?)?, tri_of(&eval(g, env, b)?)?);
            tri_cv(match (x, y) {
                (Some(false), _) | (_, Some(false)) => Some(false),
                (Some(true), Some(true)) => Some(true),
                _ => None,
            })
        }
        Ex::Or(a, b) => {
            let (x, y) = (tri_of(&eval(g, env, a)?)?, tri_of(&eval(g, env, b)?)?);
            tri_cv(match (x, y) {
                (Some(true), _) | (_, Some(true)) => Some(true),
                (Some(false), Some(false)) => Some(false),
                _ => None,
            })
        }
        Ex::Xor(a, b) => {
            let (x, y) = (tri_of(&eval(g, env, a)?)?, tri_of(&eval(g, env, b)?)?);
            tri_cv(match (x, y) {
                (Some(p), Some(q)) => Some(p != q),
                _ => None,
            })
        }
        Ex::Cmp(op, a, b) => {
            let (x, y) = (eval(g, env, a)?, eval(g, env, b)?);
            if x == CV::Null || y == CV::Null {
                return Ok(CV::Null);
            }
            let same_kind = matches!((&x, &y), (CV::Int(_), CV::Int(_)) | (CV::Str(_), CV::Str(_)) | (CV::Bool(_), CV::Bool(_)));
            match *op {
                "=" => CV::Bool(x == y),
                "<>" => CV::Bool(x != y),
                _ => {
                    if !same_kind {
                        CV::Null
                    } else {
                        let o = x.cmp(&y);
                        CV::Bool(match *op {
                            "<" => o.is_lt(),
                            "<=" => o.is_le(),
                            ">" => o.is_gt(),
                            ">=" => o.is_ge(),
                            _ => return Err(format!("unknown operator {op}")),
                        })
                    }
                }
            }
        }
    })
}

fn node_ok(g: &QGraph, i: usize, p: &NodeP) -> bool {
    let n = &g.nodes[i];
    if let Some(l) = p.label {
        if !n.labels.contains(&l) {
            return false;
        }
    }
    if let Some(want) = &p.prop {
        // {v: null} never matches
        if *want == CV::Null || n.v.as_ref() != Some(want) {
            return false;
        }
    }
    true
}

/// Enumerates all assignments of one path pattern; `used` = relationships already taken in this MATCH.
fn match_path(g: &QGraph, env: &Env, used: &[usize], path: &PathP, out: &mut Vec<(Env, Vec<usize>)>) {
    fn bind_node(g: &QGraph, env: &Env, p: &NodeP, i: usize) -> Option<Env> {
        if !node_ok(g, i, p) {
            return None;
        }
        match env.get(p.var) {
            Some(Bind::Node(j)) if *j != i => None,
            Some(Bind::Node(_)) => Some(env.clone()),
            Some(_) => None,
            None => {
                let mut e = env.clone();
                e.insert(p.var, Bind::Node(i));
                Some(e)
            }
        }
    }
    fn step(g: &QGraph, env: Env, used: Vec<usize>, at: usize, steps: &[(RelP, NodeP)], out: &mut Vec<(Env, Vec<usize>)>) {
        let Some(((rp, np), rest)) = steps.split_first() else {
            out.push((env, used));
            return;
        };
        let type_ok = |r: &QRel| rp.types.is_empty() || rp.types.contains(&r.ty);
        match rp.varlen {
            None => {
                for (ri, r) in g.rels.iter().enumerate() {
                    if used.contains(&ri) || !type_ok(r) {
                        continue;
                    }
                    let mut targets = Vec::new();
                    if matches!(rp.dir, Dir::Out | Dir::Both) && r.src == at {
                        targets.push(r.dst);
                    }
                    if matches!(rp.dir, Dir::In | Dir::Both) && r.dst == at && !(rp.dir == Dir::Both && r.src == r.dst) {
                        targets.push(r.src);
                    }
                    for t in targets {
                        if let Some(rv) = rp.var {
                            match env.get(rv) {
                                Some(Bind::Rel(j)) if *j != ri => continue,
                                Some(Bind::Rel(_)) | None => {}
                                Some(_) => continue,
                            }
                        }
                        let Some(mut e2) = bind_node(g, &env, np, t) else { continue };
                        if let Some(rv) = rp.var {
                            e2.insert(rv, Bind::Rel(ri));
                        }
                        let mut u2 = used.clone();
                        u2.push(ri);
                        step(g, e2, u2, t, rest, out);
                    }
                }
            }
            Some((lo, hi)) => {
                // all trails (distinct relationships) of length lo..=hi
                fn walk(g: &QGraph, rp: &RelP, at: usize, len: usize, lo: usize, hi: usize, used: Vec<usize>, ends: &mut Vec<(usize, Vec<usize>)>) {
                    if len >= lo {
                        ends.push((at, used.clone()));
                    }
                    if len == hi {
                        return;
                    }
                    for (ri, r) in g.rels.iter().enumerate() {
                        if used.contains(&ri) || !(rp.types.is_empty() || rp.types.contains(&r.ty)) {
                            continue;
                        }
                        let mut targets = Vec::new();
                        if matches!(rp.dir, Dir::Out | Dir::Both) && r.src == at {
                            targets.push(r.dst);
                        }
                        if matches!(rp.dir, Dir::In | Dir::Both) && r.dst == at && !(rp.dir == Dir::Both && r.src == r.dst) {
                            targets.push(r.src);
                        }
                        for t in targets {
                            let mut u2 = used.clone();
                            u2.push(ri);
                            walk(g, rp, t, len + 1, lo, hi, u2, ends);
                        }
                    }
                }
                let mut ends = Vec::new();
                walk(g, rp, at, 0, lo, hi, used.clone(), &mut ends);
                for (t, u2) in ends {
                    let Some(e2) = bind_node(g, &env, np, t) else { continue };
                    step(g, e2, u2, t, rest, out);
                }
            }
        }
    }
    for i in 0..g.nodes.len() {
        if let Some(e) = bind_node(g, env, &path.start, i) {
            step(g, e, used.to_vec(), i, &path.steps, out);
        }
    }
}

thread_local! {
    /// Reference semantics switch: `false` evaluates the (non-standard) variant in which
    /// relationship uniqueness only holds inside one comma-separated pattern part.
    pub static CROSS_PART_UNIQUE: std::cell::Cell<bool> = const { std::cell::Cell::new(true) };
}

fn match_parts(g: &QGraph, env: &Env, parts: &[PathP]) -> Vec<Env> {
    let cross = CROSS_PART_UNIQUE.with(|c| c.get());
    let mut cur: Vec<(Env, Vec<usize>)> = vec![(env.clone(), vec![])];
    for p in parts {
        let mut next = Vec::new();
        for (e, used) in &cur {
            let none: Vec<usize> = Vec::new();
            match_path(g, e, if cross { used } else { &none }, p, &mut next);
        }
        cur = next;
    }
    cur.into_iter().map(|(e, _)| e).collect()
}

fn is_true(g: &QGraph, env: &Env, wh: &Option<Ex>) -> Result<bool, String> {
    match wh {
        None => Ok(true),
        Some(w) => Ok(tri_of(&eval(g, env, w)?)? == Some(true)),
    }
}

#[derive(Clone, Debug, PartialEq)]
pub struct RefResult {
    /// rows before SKIP/LIMIT, in ORDER BY order when ordered (ties in unspecified order)
    pub rows: Vec<CRow>,
    pub order: Vec<(usize, bool)>,
    pub skip: Option<usize>,
    pub limit: Option<usize>,
    /// column indexes whose values are lists to be compared as multisets (collect, labels)
    pub bag_cols: Vec<usize>,
}

/// null-last ascending comparison on integer-or-null keys (the only ORDER BY keys generated)
pub fn order_cmp(a: &CV, b: &CV) -> std::cmp::Ordering {
    match (a, b) {
        (CV::Null, CV::Null) => std::cmp::Ordering::Equal,
        (CV::Null, _) => std::cmp::Ordering::Greater,
        (_, CV::Null) => std::cmp::Ordering::Less,
        _ => a.cmp(b),
    }
}

pub fn eval_query(g: &QGraph, q: &Query) -> Result<RefResult, String> {
    let mut envs: Vec<Env> = vec![Env::new()];
    for c in &q.clauses {
        match c {
            Clause::Match { optional, parts, wh } => {
                let mut next = Vec::new();
                let new_vars: Vec<&'static str> = parts.iter().flat_map(|p| p.vars()).collect();
                for e in &envs {
                    let mut got = Vec::new();
                    for m in match_parts(g, e, parts) {
                        if is_true(g, &m, wh)? {
                            got.push(m);
                        }
                    }
                    if got.is_empty() && *optional {
                        let mut e2 = e.clone();
                        for v in &new_vars {
                            e2.entry(v).or_insert(Bind::Null);
                        }
                        got.push(e2);
                    }
                    next.extend(got);
                }
                envs = next;
            }
            Clause::Unwind { items, var } => {
                let mut next = Vec::new();
                for e in &envs {
                    for it in items {
                        let mut e2 = e.clone();
                        e2.insert(var, if *it == CV::Null { Bind::Val(CV::Null) } else { Bind::Val(it.clone()) });
                        next.push(e2);
                    }
                }
                envs = next;
            }
            Clause::With { vars, wh } => {
                let mut next = Vec::new();
                for e in &envs {
                    let mut e2 = Env::new();
                    for v in vars {
                        if let Some(b) = e.get(v) {
                            e2.insert(*v, b.clone());
                        }
                    }
                    if is_true(g, &e2, wh)? {
                        next.push(e2);
                    }
                }
                envs = next;
            }
            Clause::Return { distinct, items, order, skip, limit } => {
                let item_val = |e: &Env, it: &Item| -> Result<CV, String> {
                    Ok(match it {
                        Item::Ex(x) => eval(g, e, x)?,
                        Item::Labels(v) => match e.get(v) {
                            Some(Bind::Node(i)) => {
                                let mut l: Vec<CV> = g.nodes[*i].labels.iter().map(|s| CV::Str(s.to_string())).collect();
                                l.sort();
                                CV::List(l)
                            }
                            _ => CV::Null,
                        },
                        Item::Type(v) => match e.get(v) {
                            Some(Bind::Rel(i)) => CV::Str(g.rels[*i].ty.to_string()),
                            _ => CV::Null,
                        },
                        _ => return Err("aggregate outside grouping".into()),
                    })
                };
                let mut bag_cols: Vec<usize> = items.iter().enumerate().filter(|(_, it)| matches!(it, Item::Labels(_) | Item::Agg("collect", ..))).map(|(i, _)| i).collect();
                bag_cols.dedup();
                let mut rows: Vec<CRow> = Vec::new();
                if items.iter().any(|i| i.is_agg()) {
                    let key_idx: Vec<usize> = items.iter().enumerate().filter(|(_, it)| !it.is_agg()).map(|(i, _)| i).collect();
                    let mut groups: BTreeMap<Vec<CV>, Vec<&Env>> = BTreeMap::new();
                    for e in &envs {
                        let mut k = Vec::new();
                        for i in &key_idx {
                            k.push(item_val(e, &items[*i])?);
                        }
                        groups.entry(k).or_default().push(e);
                    }
                    if groups.is_empty() && key_idx.is_empty() {
                        groups.insert(vec![], vec![]);
                    }
                    for (k, members) in groups {
                        let mut row = Vec::new();
                        let mut ki = 0;
                        for it in items {
                            match it {
                                Item::CountStar => row.push(CV::Int(members.len() as i64)),
                                Item::Agg(f, x, d) => {
                                    let mut vals = Vec::new();
                                    for m in &members {
                                        let v = eval(g, m, x)?;
                                        if v != CV::Null {
                                            vals.push(v);
                                        }
                                    }
                                    if *d {
                                        vals.sort();
                                        vals.dedup();
                                    }
                                    row.push(match *f {
                                        "count" => CV::Int(vals.len() as i64),
                                        "sum" => {
                                            let mut s = 0i64;
                                            for v in &vals {
                                                match v {
                                                    CV::Int(i) => s += i,
                                                    other => return Err(format!("sum over non-integer {}", other.show())),
                                                }
                                            }
                                            CV::Int(s)
                                        }
                                        "min" => vals.iter().min().cloned().unwrap_or(CV::Null),
                                        "max" => vals.iter().max().cloned().unwrap_or(CV::Null),
                                        "collect" => {
                                            vals.sort();
                                            CV::List(vals)
                                        }
                                        other => return Err(format!("unknown aggregate {other}")),
                                    });
                                }
                                _ => {
                                    row.push(k[ki].clone());
                                    ki += 1;
                                }
                            }
                        }
                        rows.push(row);
                    }
                } else {
                    for e in &envs {
                        let mut row = Vec::new();
                        for it in items {
                            row.push(item_val(e, it)?);
                        }
                        rows.push(row);
                    }
                }
                if *distinct {
                    let mut seen = BTreeSet::new();
                    rows.retain(|r| seen.insert(r.clone()));
                }
                if !order.is_empty() {
                    rows.sort_by(|a, b| {
                        for (i, desc) in order {
                            let o = order_cmp(&a[*i], &b[*i]);
                            let o = if *desc { o.reverse() } else { o };
                            if o != std::cmp::Ordering::Equal {
                                return o;
                            }
                        }
                        std::cmp::Ordering::Equal
                    });
                }
                return Ok(RefResult { rows, order: order.clone(), skip: *skip, limit: *limit, bag_cols });
            }
        }
    }
    Err("query without RETURN".into())
}

/// Compares engine rows with the reference; `None` = agreement.
pub fn compare(reference: &RefResult, got: &[CRow]) -> Option<String> {
    let norm = |rows: &[CRow]| -> Vec<CRow> {
        rows.iter()
            .map(|r| {
                r.iter()
                    .enumerate()
                    .map(|(i, v)| {
                        if reference.bag_cols.contains(&i) {
                            if let CV::List(l) = v {
                                let mut l = l.clone();
                                l.sort();
                                return CV::List(l);
                            }
                        }
                        v.clone()
                    })
                    .collect()
            })
            .collect()
    };
    let want_all = norm(&reference.rows);
    let got = norm(got);
    let n = want_all.len();
    let s = reference.skip.unwrap_or(0).min(n);
    let e = match reference.limit {
        Some(l) => (s + l).min(n),
        None => n,
    };
    if got.len() != e - s {
        return Some(format!("row count {} expected {}", got.len(), e - s));
    }
    // every returned row must be one of the reference rows (as a sub-multiset)
    let mut pool = want_all.clone();
    for r in &got {
        match pool.iter().position(|x| x == r) {
            Some(i) => {
                pool.remove(i);
            }
            None => return Some(format!("row ({}) is not in the reference result", r.iter().map(|v| v.show()).collect::<Vec<_>>().join(", "))),
        }
    }
    if !reference.order.is_empty() {
        let keys = |rows: &[CRow]| -> Vec<Vec<CV>> { rows.iter().map(|r| reference.order.iter().map(|(i, _)| r[*i].clone()).collect()).collect() };
        if keys(&got) != keys(&want_all[s..e]) {
            return Some(format!("ORDER BY key sequence {:?} expected {:?}", keys(&got).iter().map(|k| k.iter().map(|v| v.show()).collect::<Vec<_>>()).collect::<Vec<_>>(), keys(&want_all[s..e]).iter().map(|k| k.iter().map(|v| v.show()).collect::<Vec<_>>()).collect::<Vec<_>>()));
        }
    } else if reference.skip.is_none() && reference.limit.is_none() && !pool.is_empty() {
        return Some("rows missing".into());
    }
    None
}

// ---------------------------------------------------------------------------------------------
// Query enumeration (all derivations of the bounded grammar)
// ---------------------------------------------------------------------------------------------

fn np(var: &'static str) -> NodeP {
    NodeP { var, label: None, prop: None }
}
fn npl(var: &'static str, l: &'static str) -> NodeP {
    NodeP { var, label: Some(l), prop: None }
}
fn rp(var: Option<&'static str>, types: &[&'static str], dir: Dir) -> RelP {
    RelP { var, types: types.to_vec(), dir, varlen: None }
}

pub fn patterns(full: bool) -> Vec<PathP> {
    let mut v = vec![
        PathP { start: np("a"), steps: vec![] },
        PathP { start: npl("a", "A"), steps: vec![] },
        PathP { start: NodeP { var: "a", label: None, prop: Some(CV::Int(1)) }, steps: vec![] },
        PathP { start: np("a"), steps: vec![(rp(Some("r"), &[], Dir::Out), np("b"))] },
        PathP { start: np("a"), steps: vec![(rp(Some("r"), &["R"], Dir::In), np("b"))] },
        PathP { start: np("a"), steps: vec![(rp(Some("r"), &[], Dir::Both), np("b"))] },
        PathP { start: np("a"), steps: vec![(rp(None, &["R", "S"], Dir::Out), np("b"))] },
        PathP { start: npl("a", "A"), steps: vec![(rp(Some("r"), &[], Dir::Out), npl("b", "B"))] },
        PathP { start: np("a"), steps: vec![(RelP { var: None, types: vec![], dir: Dir::Out, varlen: Some((1, 2)) }, np("b"))] },
        PathP { start: np("a"), steps: vec![(RelP { var: None, types: vec![], dir: Dir::Both, varlen: Some((0, 1)) }, np("b"))] },
        PathP { start: np("a"), steps: vec![(rp(Some("r"), &[], Dir::Out), NodeP { var: "b", label: None, prop: Some(CV::Int(1)) })] },
    ];
    if full {
        v.push(PathP { start: np("a"), steps: vec![(rp(Some("r"), &[], Dir::Out), np("b")), (rp(Some("s"), &[], Dir::Out), np("c"))] });
        v.push(PathP { start: np("a"), steps: vec![(rp(Some("r"), &[], Dir::Out), np("b")), (rp(Some("s"), &[], Dir::In), np("c"))] });
        v.push(PathP { start: np("a"), steps: vec![(rp(Some("r"), &[], Dir::Both), np("b")), (rp(Some("s"), &[], Dir::Both), np("c"))] });
        v.push(PathP { start: np("a"), steps: vec![(rp(Some("r"), &["S"], Dir::Out), np("a"))] });
        v.push(PathP { start: np("a"), steps: vec![(RelP { var: None, types: vec!["R"], dir: Dir::Out, varlen: Some((1, 2)) }, npl("b", "A"))] });
        // cycle-closing patterns (a variable that is already bound at the far end of a hop)
        v.push(PathP { start: np("a"), steps: vec![(rp(Some("r"), &[], Dir::Both), np("b")), (rp(Some("s"), &[], Dir::Both), np("a"))] });
        v.push(PathP { start: np("a"), steps: vec![(rp(Some("r"), &[], Dir::In), np("b")), (rp(Some("s"), &[], Dir::Both), np("a"))] });
        v.push(PathP { start: np("a"), steps: vec![(rp(Some("r"), &["R"], Dir::Out), np("b")), (rp(Some("s"), &[], Dir::Out), np("a"))] });
    }
    v
}

pub fn predicates(has_b: bool) -> Vec<Option<Ex>> {
    let p = |v: &'static str| Box::new(Ex::Prop(v, "v"));
    let lit = |i: i64| Box::new(Ex::Lit(CV::Int(i)));
    let mut v: Vec<Option<Ex>> = vec![
        None,
        Some(Ex::Cmp("=", p("a"), lit(1))),
        Some(Ex::Cmp("<", p("a"), lit(2))),
        Some(Ex::Cmp("=", p("a"), Box::new(Ex::Lit(CV::Str("x".into()))))),
        Some(Ex::IsNull(p("a"), false)),
        Some(Ex::IsNull(p("a"), true)),
        Some(Ex::HasLabel("a", "A")),
        Some(Ex::Not(Box::new(Ex::Cmp("=", p("a"), lit(1))))),
        Some(Ex::Or(Box::new(Ex::Cmp("=", p("a"), lit(1))), Box::new(Ex::HasLabel("a", "B")))),
        Some(Ex::Xor(Box::new(Ex::Cmp("=", p("a"), lit(1))), Box::new(Ex::HasLabel("a", "A")))),
        Some(Ex::Not(Box::new(Ex::Cmp("<", p("a"), lit(2))))),
        Some(Ex::Cmp("<>", p("a"), lit(1))),
        Some(Ex::Not(Box::new(Ex::And(Box::new(Ex::Cmp("=", p("a"), lit(1))), Box::new(Ex::HasLabel("a", "A")))))),
        Some(Ex::Not(Box::new(Ex::And(Box::new(Ex::HasLabel("a", "A")), Box::new(Ex::Cmp("=", p("a"), lit(1))))))),
        Some(Ex::Not(Box::new(Ex::Or(Box::new(Ex::Cmp("=", p("a"), lit(1))), Box::new(Ex::HasLabel("a", "A")))))),
        Some(Ex::Not(Box::new(Ex::Or(Box::new(Ex::HasLabel("a", "B")), Box::new(Ex::Cmp("<", p("a"), lit(2))))))),
        // equality on ANOTHER key than the one an inline property map uses (predicate push-down next to {v: 1})
        Some(Ex::Cmp("=", Box::new(Ex::Prop("a", "uid")), lit(1))),
        Some(Ex::And(Box::new(Ex::Cmp("=", Box::new(Ex::Prop("a", "uid")), lit(2))), Box::new(Ex::IsNull(p("a"), true)))),
    ];
    if has_b {
        v.push(Some(Ex::Cmp("<", p("a"), p("b"))));
        v.push(Some(Ex::Cmp("=", p("a"), p("b"))));
        v.push(Some(Ex::And(Box::new(Ex::Cmp("=", p("a"), lit(1))), Box::new(Ex::Cmp("=", p("b"), lit(2))))));
        v.push(Some(Ex::And(Box::new(Ex::HasLabel("a", "A")), Box::new(Ex::Not(Box::new(Ex::HasLabel("b", "A")))))));
        v.push(Some(Ex::Cmp("=", Box::new(Ex::Prop("b", "uid")), lit(2))));
    }
    v
}

pub fn returns(vars: &[&'static str]) -> Vec<Clause> {
    let has = |v: &str| vars.contains(&v);
    let uid = |v: &'static str| Item::Ex(Ex::Prop(v, "uid"));
    let val = |v: &'static str| Item::Ex(Ex::Prop(v, "v"));
    let ret = |distinct: bool, items: Vec<Item>, order: Vec<(usize, bool)>, skip: Option<usize>, limit: Option<usize>| Clause::Return { distinct, items, order, skip, limit };
    let mut v = Vec::new();
    v.push(ret(false, vec![uid("a")], vec![], None, None));
    v.push(ret(false, vec![val("a")], vec![], None, None));
    v.push(ret(true, vec![val("a")], vec![], None, None));
    v.push(ret(false, vec![Item::Labels("a")], vec![], None, None));
    v.push(ret(false, vec![Item::CountStar], vec![], None, None));
    v.push(ret(false, vec![Item::Agg("count", Ex::Prop("a", "v"), false)], vec![], None, None));
    v.push(ret(false, vec![Item::Agg("count", Ex::Prop("a", "v"), true)], vec![], None, None));
    v.push(ret(false, vec![Item::Agg("sum", Ex::Prop("a", "uid"), false), Item::Agg("min", Ex::Prop("a", "uid"), false), Item::Agg("max", Ex::Prop("a", "uid"), false)], vec![], None, None));
    v.push(ret(false, vec![uid("a")], vec![(0, false)], None, None));
    v.push(ret(false, vec![uid("a")], vec![(0, true)], Some(1), Some(1)));
    v.push(ret(false, vec![uid("a")], vec![(0, false)], None, Some(0)));
    v.push(ret(false, vec![val("a"), Item::CountStar], vec![], None, None));
    {
        let p = || Box::new(Ex::Prop("a", "v"));
        let one = || Box::new(Ex::Lit(CV::Int(1)));
        let lab = |l: &'static str| Box::new(Ex::HasLabel("a", l));
        v.push(ret(false, vec![uid("a"), Item::Ex(Ex::And(lab("A"), Box::new(Ex::Cmp("=", p(), one())))), Item::Ex(Ex::And(Box::new(Ex::Cmp("=", p(), one())), lab("A")))], vec![], None, None));
        v.push(ret(false, vec![uid("a"), Item::Ex(Ex::Or(lab("B"), Box::new(Ex::Cmp("<", p(), one())))), Item::Ex(Ex::Xor(Box::new(Ex::Cmp("=", p(), one())), lab("A"))), Item::Ex(Ex::Not(Box::new(Ex::Cmp("=", p(), one()))))], vec![], None, None));
        v.push(ret(false, vec![Item::Agg("count", Ex::And(lab("A"), Box::new(Ex::Cmp("=", p(), one()))), false)], vec![], None, None));
    }
    if has("b") {
        v.push(ret(false, vec![uid("a"), uid("b")], vec![], None, None));
        v.push(ret(true, vec![uid("b")], vec![], None, None));
        v.push(ret(false, vec![uid("a"), Item::Agg("collect", Ex::Prop("b", "uid"), false)], vec![], None, None));
        v.push(ret(false, vec![uid("a"), Item::CountStar], vec![(1, true), (0, false)], None, Some(2)));
        v.push(ret(false, vec![uid("a"), uid("b")], vec![(0, false), (1, true)], Some(1), None));
        v.push(ret(false, vec![Item::Agg("max", Ex::Prop("b", "uid"), false), Item::Agg("count", Ex::Prop("b", "v"), false)], vec![], None, None));
    }
    if has("r") {
        v.push(ret(false, vec![Item::Type("r"), uid("a")], vec![], None, None));
        v.push(ret(false, vec![Item::Type("r"), Item::CountStar], vec![], None, None));
    }
    if has("c") {
        v.push(ret(false, vec![uid("a"), uid("b"), uid("c")], vec![], None, None));
    }
    if has("u") {
        v.push(ret(false, vec![uid("a"), Item::Ex(Ex::Var("u"))], vec![], None, None));
        v.push(ret(false, vec![Item::Agg("count", Ex::Var("u"), false), Item::CountStar], vec![], None, None));
    }
    v
}

/// All queries of the grammar: [OPTIONAL] MATCH pattern [WHERE p] [second clause] RETURN ...
pub fn queries(full: bool) -> Vec<Query> {
    let mut out = Vec::new();
    for pat in patterns(full) {
        let pvars = pat.vars();
        let has_b = pvars.contains(&"b");
        for wh in predicates(has_b) {
            for optional in [false, true] {
                // second clauses
                let mut seconds: Vec<Option<Clause>> = vec![None];
                if full || (!optional && wh.is_none()) {
                    seconds.push(Some(Clause::Unwind { items: vec![CV::Int(1), CV::Int(2), CV::Null], var: "u" }));
                    seconds.push(Some(Clause::Match { optional: true, parts: vec![PathP { start: np("a"), steps: vec![(rp(None, &["R"], Dir::Out), np("d"))] }], wh: None }));
                    seconds.push(Some(Clause::With { vars: vec!["a"], wh: Some(Ex::IsNull(Box::new(Ex::Prop("a", "v")), true)) }));
                    if has_b {
                        // both ends of the hop are already bound
                        seconds.push(Some(Clause::Match { optional: false, parts: vec![PathP { start: np("b"), steps: vec![(rp(Some("x"), &[], Dir::Both), np("a"))] }], wh: None }));
                        seconds.push(Some(Clause::Match { optional: true, parts: vec![PathP { start: np("b"), steps: vec![(rp(Some("x"), &[], Dir::Both), np("a"))] }], wh: None }));
                        seconds.push(Some(Clause::Match { optional: false, parts: vec![PathP { start: np("b"), steps: vec![(rp(None, &[], Dir::In), np("a"))] }], wh: None }));
                    }
                }
                for second in seconds {
                    let mut vars: Vec<&'static str> = pvars.clone();
                    match &second {
                        Some(Clause::Unwind { var, .. }) => vars.push(var),
                        Some(Clause::With { vars: w, .. }) => vars = w.clone(),
                        _ => {}
                    }
                    for ret in returns(&vars) {
                        let mut clauses = vec![Clause::Match { optional, parts: vec![pat.clone()], wh: wh.clone() }];
                        if let Some(s) = &second {
                            clauses.push(s.clone());
                        }
                        clauses.push(ret);
                        out.push(Query { clauses });
                    }
                }
            }
        }
    }
    // two-part patterns (cartesian product / shared variable) in the full grammar
    if full {
        let two = vec![
            vec![PathP { start: np("a"), steps: vec![] }, PathP { start: np("b"), steps: vec![] }],
            vec![PathP { start: np("a"), steps: vec![(rp(Some("r"), &[], Dir::Out), np("b"))] }, PathP { start: np("b"), steps: vec![(rp(Some("s"), &[], Dir::Out), np("c"))] }],
            vec![PathP { start: np("a"), steps: vec![(rp(Some("r"), &[], Dir::Out), np("b"))] }, PathP { start: np("c"), steps: vec![(rp(Some("s"), &[], Dir::Out), np("d"))] }],
        ];
        for parts in two {
            let vars: Vec<&'static str> = parts.iter().flat_map(|p| p.vars()).collect();
            for wh in predicates(true).into_iter().take(6) {
                for ret in returns(&vars) {
                    out.push(Query { clauses: vec![Clause::Match { optional: false, parts: parts.clone(), wh: wh.clone() }, ret] });
                }
            }
        }
    }
    out
}
