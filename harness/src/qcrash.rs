//! C16: query processing never crashes the host - exhaustive input families in child processes.
use crate::child;
use crate::common::*;
use crate::qry::*;
use nervusdb::query::{ExecuteOptions, Params, Value, prepare};
use serde_json::json;

const TOKENS: [&str; 30] = [
    "MATCH", "OPTIONAL", "(", ")", "[", "]", "{", "}", "n", ":A", "-", "->", "<-", "WHERE", "RETURN", "WITH", "UNWIND", "AS", "1", "'a'", ",", ".", "*", "+", "=", "NOT", "CREATE", "DELETE", "null", "$p",
];

const SPECIAL: [&str; 13] = ["(", "[", "{", "'", "\\", "$", "-", ">", "*", "\0", "\u{FFFD}", "\u{202E}", "é"];

fn nesting(family: &str, d: usize) -> String {
    match family {
        "parens" => format!("RETURN {}1{}", "(".repeat(d), ")".repeat(d)),
        "lists" => format!("RETURN {}1{}", "[".repeat(d), "]".repeat(d)),
        "maps" => format!("RETURN {}1{}", "{a: ".repeat(d), "}".repeat(d)),
        "not" => format!("RETURN {}true", "NOT ".repeat(d)),
        "minus" => format!("RETURN {}1", "- ".repeat(d)),
        "plus_chain" => format!("RETURN 1{}", " + 1".repeat(d)),
        "and_chain" => format!("RETURN true{}", " AND true".repeat(d)),
        "case" => format!("RETURN {}1{}", "CASE WHEN true THEN ".repeat(d), " END".repeat(d)),
        "calls" => format!("RETURN {}1{}", "abs(".repeat(d), ")".repeat(d)),
        "comprehension" => format!("RETURN {}1{}", "[x IN [1] | ".repeat(d), "]".repeat(d)),
        "exists" => format!("MATCH (n) WHERE {}true{} RETURN n", "EXISTS { MATCH (n) WHERE ".repeat(d), " }".repeat(d)),
        "call_subquery" => format!("{}RETURN 1 AS x{} RETURN x", "CALL { ".repeat(d), " }".repeat(d)),
        "pattern_chain" => format!("MATCH (a){} RETURN a", "-[]->()".repeat(d)),
        "union_chain" => format!("RETURN 1 AS x{}", " UNION RETURN 1 AS x".repeat(d)),
        "with_chain" => format!("WITH 1 AS x{} RETURN x", " WITH x".repeat(d)),
        "string_concat" => format!("RETURN 'a'{}", " + 'a'".repeat(d)),
        "property_chain" => format!("WITH {{a: 1}} AS m RETURN m{}", ".a".repeat(d)),
        "index_chain" => format!("RETURN [[1]]{}", "[0]".repeat(d)),
        "cmp_chain" => format!("RETURN 1{}", " < 2".repeat(d)),
        "eq_chain" => format!("RETURN 1{}", " = 1".repeat(d)),
        "or_xor_chain" => format!("RETURN true{}", " OR false XOR true".repeat(d)),
        "label_chain" => format!("MATCH (n{}) RETURN n", ":A".repeat(d)),
        "label_predicate_chain" => format!("MATCH (n) WHERE n{} RETURN n", ":A".repeat(d)),
        "shortest_path_nest" => format!("MATCH p = {}(a)-[*]->(b){} RETURN p", "shortestPath(".repeat(d), ")".repeat(d)),
        "prop_map_keys" => format!("MATCH (n {{{}}}) RETURN n", (0..d).map(|i| format!("k{i}: 1")).collect::<Vec<_>>().join(", ")),
        "match_pattern_list" => format!("MATCH {} RETURN count(*) AS c", (0..d).map(|i| format!("(a{i}:Nope)")).collect::<Vec<_>>().join(", ")),
        "create_pattern_list" => format!("CREATE {}", (0..d).map(|_| "(:Tmp)".to_string()).collect::<Vec<_>>().join(", ")),
        "reduce_nested_values" => format!("RETURN size(reduce(acc = [], x IN range(1, {d}) | [acc])) AS c"),
        "foreach_nest" => format!("{}CREATE (:Tmp){}", "FOREACH (i IN [1] | ".repeat(d), ")".repeat(d)),
        "return_items" => format!("RETURN {}", (0..d).map(|i| format!("1 AS c{i}")).collect::<Vec<_>>().join(", ")),
        "with_items" => format!("WITH {} RETURN c0", (0..d).map(|i| format!("1 AS c{i}")).collect::<Vec<_>>().join(", ")),
        "list_literal" => format!("RETURN size([{}]) AS c", vec!["1"; d].join(", ")),
        "in_list_literal" => format!("RETURN 1 IN [{}] AS c", vec!["2"; d].join(", ")),
        "unwind_chain" => format!("{}RETURN 1 AS c", "UNWIND [1] AS x ".repeat(d)),
        "match_chain" => format!("{}RETURN 1 AS c", "MATCH (n) ".repeat(d)),
        "string_literal_escapes" => format!("RETURN '{}' AS c", "\\n".repeat(d)),
        _ => String::new(),
    }
}

const NEST_FAMILIES: [&str; 36] = ["cmp_chain", "eq_chain", "or_xor_chain", "label_chain", "label_predicate_chain", "shortest_path_nest", "prop_map_keys", "match_pattern_list", "create_pattern_list", "reduce_nested_values", "foreach_nest", "return_items", "with_items", "list_literal", "in_list_literal", "unwind_chain", "match_chain", "string_literal_escapes", "parens", "lists", "maps", "not", "minus", "plus_chain", "and_chain", "case", "calls", "comprehension", "exists", "call_subquery", "pattern_chain", "union_chain", "with_chain", "string_concat", "property_chain", "index_chain"];

fn depths(thorough: bool) -> Vec<usize> {
    if let Ok(d) = std::env::var("VERIF_C16_DEPTH") {
        // probing aid: one custom depth for every family
        return vec![d.parse().unwrap_or(1)];
    }
    if thorough { vec![1, 10, 100, 1_000, 10_000, 100_000] } else { vec![1, 10, 100, 1_000, 10_000] }
}

fn literal_inputs() -> Vec<String> {
    let mut v: Vec<String> = Vec::new();
    for lit in [
        "9223372036854775807", "9223372036854775808", "-9223372036854775808", "-9223372036854775809", "1e308", "1e309", "-1e309", "1e-400", "0x7fffffffffffffff", "0xffffffffffffffffff", "0o777777777777777777777777", "1.7976931348623157e308",
        ".5", "5.", "1e", "1e+", "0x", "00012", "1_000",
    ] {
        v.push(format!("RETURN {lit} AS x"));
        v.push(format!("RETURN -{lit} AS x"));
        v.push(format!("RETURN {lit} + 1 AS x"));
        v.push(format!("RETURN toInteger('{lit}') AS x"));
        v.push(format!("RETURN toFloat('{lit}') AS x"));
        v.push(format!("UNWIND range(1, 3) AS i RETURN i SKIP {lit}"));
        v.push(format!("UNWIND range(1, 3) AS i RETURN i LIMIT {lit}"));
        v.push(format!("MATCH (a)-[*{lit}]->(b) RETURN a"));
        v.push(format!("MATCH (a)-[*1..{lit}]->(b) RETURN a"));
    }
    // range() over every combination of boundary bounds and steps
    let bounds = ["-9223372036854775808", "-9223372036854775807", "-1", "0", "1", "9223372036854775806", "9223372036854775807"];
    let steps = ["-1", "1", "-2", "2", "-9223372036854775808", "9223372036854775807", "-9223372036854775807"];
    for a in bounds {
        for b in bounds {
            for st in steps {
                v.push(format!("RETURN size(range({a}, {b}, {st})) AS x"));
            }
        }
    }
    v.push(format!("RETURN {} AS x", "9".repeat(400)));
    v.push(format!("RETURN 0.{} AS x", "9".repeat(400)));
    v.push(format!("RETURN '{}' AS x", "a".repeat(100_000)));
    v.push(format!("RETURN {} AS x", "x".repeat(100_000)));
    for f in ["range(1, 9223372036854775807)", "range(-9223372036854775808, 9223372036854775807, 9223372036854775807)", "range(1, 10, 0)", "range(0, 100000000)", "substring('abc', 9223372036854775807)", "substring('abc', -1)", "substring('abc', 1, -1)", "left('abc', -1)", "right('abc', 9223372036854775807)", "[1,2,3][9223372036854775807]", "[1,2,3][-9223372036854775808]", "[1,2,3][1..9223372036854775807]", "split('a', '')", "replace('aaa', '', 'b')", "toString(-9223372036854775808)", "abs(-9223372036854775808)", "-(-9223372036854775808)", "9223372036854775807 * 9223372036854775807", "1 / 0", "1 % 0", "1.0 / 0", "0.0 / 0.0", "sqrt(-1)", "log(0)", "2 ^ 100000", "round(1e300)", "toInteger(1e300)", "toInteger('1e300')", "size(range(1, 300000))", "reduce(a = 0, x IN range(1, 300000) | a + x)", "date('0000-00-00')", "date('9999-99-99')", "datetime('2020-01-01T25:61:61')", "duration('P999999999999Y')", "date('2020-02-30')", "localtime('25:00')", "duration({days: 9223372036854775807})", "date({year: 999999999, month: 13})", "date('2020-01-01') + duration({months: 9223372036854775807})", "date('2020-01-01') - duration({days: 9223372036854775807})", "datetime('2020-01-01T00:00:00Z') + duration({seconds: 9223372036854775807})", "duration({months: 9223372036854775807}) + duration({months: 1})", "duration({days: 9223372036854775807}) * 2", "localtime('10:00') + duration({hours: 9223372036854775807})", "date.truncate('week', date({year: -999999999}))", "duration.between(date({year: -999999999}), date({year: 999999999}))"] {
        v.push(format!("RETURN {f} AS x"));
    }
    v
}

const HEAVY: [(&str, &str); 20] = [
    ("cartesian_match", "MATCH (a), (b), (c), (d), (e), (f), (g), (h) RETURN count(*) AS c"),
    ("cartesian_unwind", "UNWIND range(1, 100000) AS a UNWIND range(1, 100000) AS b RETURN count(*) AS c"),
    ("varlen_bounded", "MATCH (a)-[*1..30]-(b) RETURN count(*) AS c"),
    ("varlen_unbounded_paths", "MATCH p = (a)-[*]-(b) RETURN count(p) AS c"),
    ("sum_range", "UNWIND range(1, 10000000) AS a RETURN sum(a) AS s"),
    ("order_by", "UNWIND range(1, 3000000) AS a WITH a ORDER BY a DESC RETURN a LIMIT 1"),
    ("distinct", "UNWIND range(1, 3000000) AS a RETURN DISTINCT a % 7 AS m"),
    ("collect", "UNWIND range(1, 200000) AS a RETURN collect(a)[0] AS c"),
    ("filtered_cartesian", "MATCH (a), (b), (c), (d) WHERE a.uid < b.uid AND b.uid < c.uid AND c.uid < d.uid RETURN count(*) AS c"),
    ("exists_subquery_per_row", "UNWIND range(1, 100000) AS a MATCH (n) WHERE EXISTS { MATCH (n)-[*1..6]-(m) } RETURN count(*) AS c"),
    ("call_subquery_per_row", "UNWIND range(1, 100000) AS a CALL { MATCH (n)-[*1..6]-(m) RETURN count(*) AS k } RETURN sum(k) AS c"),
    ("call_subquery_many_short_evaluations", "UNWIND range(1, 6000) AS a UNWIND range(1, 6000) AS x CALL { WITH x RETURN x + 1 AS y } RETURN count(y) AS c"),
    ("exists_many_short_evaluations", "UNWIND range(1, 6000) AS a UNWIND range(1, 6000) AS x WITH x WHERE EXISTS { MATCH (n) WHERE n.uid = x } RETURN count(*) AS c"),
    // one expression evaluation that does not return for a long time
    ("expr:nested_comprehension", "RETURN size([x IN range(1, 100000) | [y IN range(1, 100000) | x + y]]) AS c"),
    ("expr:nested_quantifier", "RETURN all(x IN range(1, 100000) WHERE all(y IN range(1, 100000) WHERE x + y > 0)) AS c"),
    ("expr:nested_reduce", "RETURN reduce(a = 0, x IN range(1, 100000) | a + reduce(b = 0, y IN range(1, 100000) | b + y)) AS c"),
    ("expr:filter_comprehension_in_filter", "RETURN size([x IN range(1, 100000) WHERE size([y IN range(1, 100000) WHERE y = x]) > 0]) AS c"),
    ("expr:none_in_single", "RETURN single(x IN range(1, 100000) WHERE none(y IN range(1, 100000) WHERE y = x)) AS c"),
    ("expr:reduce_in_comprehension_per_row", "UNWIND range(1, 1000) AS r RETURN [x IN range(1, 100000) | reduce(a = 0, y IN range(1, 1000) | a + y)][0] AS c"),
    ("expr:comprehension_in_where", "MATCH (n) WHERE size([x IN range(1, 100000) | [y IN range(1, 100000) | y]]) > 0 RETURN count(n) AS c"),
];

/// CPU seconds a query with soft_timeout_ms = 50 may use (the scripted margin covers plan compilation,
/// the graph scan of the first rows and the distance between two timeout checks)
const HEAVY_CPU_LIMIT_S: f64 = 2.5;

fn heavy_inputs() -> Vec<String> {
    HEAVY.iter().map(|(_, q)| q.to_string()).collect()
}

fn corpus_inputs() -> Vec<String> {
    // read queries of the C11 grammar (first 2000) plus update statements that must not crash either
    let mut v: Vec<String> = crate::cyref::queries(false).iter().take(2000).map(|q| q.text()).collect();
    v.extend(crate::qupd::statements().iter().map(|s| s.text()));
    v
}

pub fn family_size(family: &str, thorough: bool) -> u64 {
    match family {
        "tokens" => {
            let n = TOKENS.len() as u64;
            let l = if thorough { 4 } else { 3 };
            (1..=l).map(|k| n.pow(k)).sum()
        }
        "bytes" => {
            if thorough { 256 + 65_536 + 16_777_216 / 16 } else { 256 + 65_536 }
        }
        "special" => {
            let n = SPECIAL.len() as u64;
            (1..=4u32).map(|k| n.pow(k)).sum()
        }
        "nesting" | "nesting_thread" => (NEST_FAMILIES.len() * depths(thorough).len()) as u64,
        "literals" => literal_inputs().len() as u64,
        "heavy" => heavy_inputs().len() as u64,
        "corpus" | "corpus_compacted" | "corpus_edge_free" => corpus_inputs().len() as u64,
        _ => 0,
    }
}

fn nth_seq(mut idx: u64, alpha: &[&str], max_len: u32, sep: &str) -> String {
    let n = alpha.len() as u64;
    let mut len = 1u32;
    let mut block = n;
    while idx >= block && len < max_len {
        idx -= block;
        block *= n;
        len += 1;
    }
    let mut parts = vec![""; len as usize];
    for i in (0..len as usize).rev() {
        parts[i] = alpha[(idx % n) as usize];
        idx /= n;
    }
    parts.join(sep)
}

pub fn input_bytes(family: &str, idx: u64, thorough: bool) -> Vec<u8> {
    match family {
        "tokens" => nth_seq(idx, &TOKENS, if thorough { 4 } else { 3 }, " ").into_bytes(),
        "special" => nth_seq(idx, &SPECIAL, 4, "").into_bytes(),
        "bytes" => {
            if idx < 256 {
                vec![idx as u8]
            } else if idx < 256 + 65_536 {
                let i = idx - 256;
                vec![(i >> 8) as u8, i as u8]
            } else {
                // thorough: three bytes, every 16th combination of the last byte
                let i = (idx - 256 - 65_536) * 16;
                vec![(i >> 16) as u8, (i >> 8) as u8, i as u8]
            }
        }
        "nesting" | "nesting_thread" => {
            let ds = depths(thorough);
            let f = NEST_FAMILIES[(idx as usize) / ds.len()];
            nesting(f, ds[(idx as usize) % ds.len()]).into_bytes()
        }
        "literals" => literal_inputs().get(idx as usize).cloned().unwrap_or_default().into_bytes(),
        "heavy" => heavy_inputs().get(idx as usize).cloned().unwrap_or_default().into_bytes(),
        "corpus" | "corpus_compacted" | "corpus_edge_free" => corpus_inputs().get(idx as usize).cloned().unwrap_or_default().into_bytes(),
        _ => Vec::new(),
    }
}

pub fn describe_input(family: &str, idx: u64, thorough: bool) -> String {
    let b = input_bytes(family, idx, thorough);
    match family {
        "nesting" | "nesting_thread" => {
            let ds = depths(thorough);
            format!("{} depth {}", NEST_FAMILIES[(idx as usize) / ds.len()], ds[(idx as usize) % ds.len()])
        }
        _ => truncate(&String::from_utf8_lossy(&b), 160),
    }
}

fn shape(family: &str, idx: u64, thorough: bool) -> String {
    match family {
        "nesting" | "nesting_thread" => {
            let ds = depths(thorough);
            format!("{}@{}", NEST_FAMILIES[(idx as usize) / ds.len()], ds[(idx as usize) % ds.len()])
        }
        "heavy" => format!("heavy:{}", HEAVY[idx as usize].0),
        "literals" => truncate(&String::from_utf8_lossy(&input_bytes(family, idx, thorough)), 60),
        _ => family.to_string(),
    }
}

/// Child side.
pub fn c16_child(family: &str, start: u64, end: u64) -> i32 {
    let thorough = std::env::var("VERIF_TIER").as_deref() == Ok("thorough");
    child::apply_limits(2 << 30, 300);
    let db = QDb::new();
    // a small graph; corpus variants compact it (with and without relationships)
    let setup = if family == "corpus_edge_free" { vec!["CREATE (:A {uid: 1, v: 1}), (:B {uid: 2})"] } else { vec!["CREATE (:A {uid: 1, v: 1})-[:R]->(:B {uid: 2, v: 2})", "MATCH (a {uid: 1}), (b {uid: 2}) CREATE (b)-[:S]->(a), (a)-[:R]->(a)", "CREATE (:A:B {uid: 3})"] };
    for s in setup {
        let _ = db.write(s, &Params::new());
    }
    if family.starts_with("corpus_") {
        let _ = db.db().compact();
    }
    if family == "heavy" {
        for i in 4..=12 {
            let _ = db.write(&format!("MATCH (a {{uid: {}}}) CREATE (a)-[:R]->(:A {{uid: {i}}})-[:R]->(a)", i - 1), &Params::new());
        }
    }
    let cdir = scratch_dir("c16c");
    let cdb = crate::capi::CDb::open(&cdir.join("g")).expect("open through the C API");
    for i in start..end {
        println!("AT {i}");
        let bytes = input_bytes(family, i, thorough);
        let Ok(text) = String::from_utf8(bytes) else {
            // the Rust API takes &str: byte strings that are not UTF-8 can only arrive through the C API
            let raw = input_bytes(family, i, thorough);
            let r = catch(|| {
                let _ = cdb.query_bytes(&raw);
            });
            if let Err(p) = r {
                println!("BAD {i} {p}");
            }
            continue;
        };
        let mut params = Params::new();
        params.insert("p", Value::Int(1));
        if family == "heavy" {
            params.set_execute_options(ExecuteOptions { soft_timeout_ms: 50, ..ExecuteOptions::default() });
        }
        let t0 = cpu_time();
        let body = || {
            catch(|| {
                if let Ok(p) = prepare(&text) {
                    let snap = db.db().snapshot();
                    let is_write = text.contains("CREATE") || text.contains("DELETE") || text.contains("SET ") || text.contains("MERGE") || text.contains("REMOVE");
                    if is_write {
                        let mut txn = db.db().begin_write();
                        let _ = p.execute_mixed(&snap, &mut txn, &params);
                        // not committed: inputs stay independent
                    } else {
                        for row in p.execute_streaming(&snap, &params).take(100_000) {
                            if row.is_err() {
                                break;
                            }
                        }
                    }
                }
            })
        };
        let r = if family == "nesting_thread" {
            // the stack of a default Rust thread (2 MiB) instead of the main thread's 8 MiB
            std::thread::scope(|sc| std::thread::Builder::new().stack_size(2 << 20).spawn_scoped(sc, body).expect("spawn").join().unwrap_or_else(|_| Err("thread died".into())))
        } else {
            body()
        };
        let spent = cpu_time() - t0;
        if family == "heavy" {
            println!("INFO heavy {i} cpu={spent:.3}");
        }
        if let Err(p) = r {
            println!("BAD {i} {p}");
        } else if family == "heavy" && spent > HEAVY_CPU_LIMIT_S {
            println!("BAD {i} TIMEOUT_IGNORED: {spent:.1}s of CPU with soft_timeout_ms = 50");
        }
    }
    println!("DONE {}", end - start);
    0
}

fn cpu_time() -> f64 {
    let mut ts = libc::timespec { tv_sec: 0, tv_nsec: 0 };
    unsafe { libc::clock_gettime(libc::CLOCK_PROCESS_CPUTIME_ID, &mut ts) };
    ts.tv_sec as f64 + ts.tv_nsec as f64 * 1e-9
}

pub fn c16(tier: Tier) -> i32 {
    let rep = Report::new("C16", tier);
    let thorough = tier == Tier::Thorough;
    unsafe { std::env::set_var("VERIF_TIER", tier.name()) };
    rep.rule("input families, ALL enumerated, each batch prepared and executed in a child process with a 2 GiB address-space limit, the default 8 MiB stack and CPU / wall caps: (a) every sequence of up to 3 (thorough 4) tokens over a 30-token alphabet; (b) every byte string of length <= 2 (thorough: a 1/16 slice of length 3) and every string up to length 4 over 13 special characters (quotes, escapes, NUL, U+FFFD, U+202E); (c) 36 nesting / length families x depth in {1, 10, 100, 1000, 10^4 (, 10^5)}, on the main thread (8 MiB stack) and on a default Rust thread (2 MiB stack); (d) numeric / temporal / range boundary literals and function arguments; (e) the first 2000 queries of the C11 grammar and the C12 update statements on a plain, a compacted and an edge-free compacted graph; (f) 20 'heavy single operator / single expression' queries with soft_timeout_ms = 50: CPU time (measured, so independent of machine load) must stay below 2.5 s; oracle: the child reports rows or an error for every input - never a panic, an abort, a signal, or an ignored timeout; non-trivial = inputs processed");
    let families: Vec<(&str, u64)> = vec![("tokens", 4000), ("bytes", 8000), ("special", 4000), ("nesting", 1), ("nesting_thread", 1), ("literals", 20), ("heavy", 1), ("corpus", 500), ("corpus_compacted", 500), ("corpus_edge_free", 500)];
    let mut fam_report = Vec::new();
    for (f, chunk) in families {
        let total = family_size(f, thorough);
        let (bad, crashes, done) = child::sweep("C16", f, total, chunk, if f == "heavy" { 30 } else if f.starts_with("nesting") { 120 } else { 600 });
        rep.add_states(done);
        rep.add_transitions(done);
        rep.add_traces(done);
        rep.add_nontrivial(done);
        rep.add_evals(done);
        fam_report.push(json!({"family": f, "inputs": total, "done": done, "panics": bad.len(), "process_deaths": crashes.len()}));
        for (i, msg) in bad.iter().take(100) {
            let class = if msg.contains("TIMEOUT_IGNORED") { "timeout_ignored".to_string() } else { format!("panic:{}", msg.split("PANIC@").nth(1).and_then(|s| s.split(':').next()).unwrap_or("?")) };
            rep.outcome(&class);
            rep.violation(Violation { class, kinds: vec![f.to_string(), shape(f, *i, thorough)], replay: json!({"family": f, "index": i, "input": describe_input(f, *i, thorough)}), detail: msg.clone() });
        }
        for (i, how) in crashes.iter().take(100) {
            let class = format!("process_death:{}", how.split(' ').next().unwrap_or(""));
            rep.outcome(&class);
            rep.violation(Violation { class, kinds: vec![f.to_string(), shape(f, *i, thorough)], replay: json!({"family": f, "index": i, "input": describe_input(f, *i, thorough)}), detail: format!("child process died: {how}") });
        }
        rep.outcome(&format!("{f}:survived"));
    }
    rep.set("families", json!(fam_report));
    rep.sample(json!({"tokens": nth_seq(12345, &TOKENS, 3, " "), "nesting": "RETURN ((((1))))  (depth 10000)"}));
    rep.assume("byte strings that are not UTF-8 cannot reach the Rust API (it takes &str); they are submitted through the C API (ndb_query)");
    rep.finish()
}
