//! E-COMP: exhaustive component-level exploration (codecs C25, B-tree C26, ordered keys C27, HNSW C31).
use crate::child;
use crate::common::*;
use nervusdb::PropertyValue as PV;
use nervusdb_storage::index::btree::BTree;
use nervusdb_storage::index::ordered_key::encode_ordered_value;
use nervusdb_storage::pager::Pager;
use nervusdb_storage::wal::{SegmentPointer, WalRecord};
use rayon::prelude::*;
use serde_json::json;
use std::collections::BTreeMap;

// ---------------------------------------------------------------------------------------------
// C27 Index key encoding preserves order and equality
// ---------------------------------------------------------------------------------------------

fn boundary_ints() -> Vec<i64> {
    let mut v = vec![0i64, i64::MIN, i64::MAX];
    for k in 0..63 {
        let p = 1i64 << k;
        for x in [p, p - 1, p.wrapping_add(1), -p, -p + 1, (-p).wrapping_sub(1)] {
            v.push(x);
        }
    }
    v.sort();
    v.dedup();
    v
}

fn sweep_floats() -> Vec<f64> {
    // all f64 with free sign, exponent (11 bits) and top 4 mantissa bits: 2^16 values, NaN excluded
    let mut v = Vec::new();
    for hi in 0u32..(1 << 16) {
        let bits = (hi as u64) << 48;
        let f = f64::from_bits(bits);
        if !f.is_nan() {
            v.push(f);
        }
    }
    for f in [f64::MIN_POSITIVE, -f64::MIN_POSITIVE, f64::from_bits(1), -f64::from_bits(1), f64::MAX, f64::MIN, 9007199254740992.0, 9007199254740994.0, 0.1, -0.1] {
        v.push(f);
    }
    v
}

fn byte_strings(alpha: &[u8], max_len: usize) -> Vec<Vec<u8>> {
    let mut out: Vec<Vec<u8>> = vec![vec![]];
    let mut level: Vec<Vec<u8>> = vec![vec![]];
    for _ in 0..max_len {
        let mut next = Vec::new();
        for s in &level {
            for &b in alpha {
                let mut t = s.clone();
                t.push(b);
                next.push(t);
            }
        }
        out.extend(next.iter().cloned());
        level = next;
    }
    out
}

pub fn c27(tier: Tier) -> i32 {
    let rep = Report::new("C27", tier);
    rep.rule("exhaustive over enumerated value sets of each kind: boundary integers (0, +-2^k, +-2^k+-1, MIN, MAX) all pairs; all 65 536 floats with free sign/exponent/top-4 mantissa bits plus extremes (sorted: adjacent pairs, and all pairs of a boundary subset); all byte strings up to the stated length over {00,01,61,7F,FF-free UTF-8 subset} as String and over {00,01,61,FF} as Blob, all pairs; booleans; oracle: a<b => enc(a)<enc(b), a==b <=> enc(a)==enc(b), and no encoding is a proper prefix of another (also with the 8-byte node-id suffix appended); non-trivial = pairs compared");
    let mut pairs: u64 = 0;
    let check_pair = |kind: &str, a: &PV, b: &PV, ord: std::cmp::Ordering, eq: bool, rep: &Report| {
        let ea = encode_ordered_value(a);
        let eb = encode_ordered_value(b);
        let show = |v: &PV| truncate(&format!("{v:?}"), 60);
        let mk = |class: &str, detail: String| Violation { class: format!("{kind}:{class}"), kinds: vec![kind.to_string()], replay: json!({"a": show(a), "b": show(b)}), detail };
        if eq != (ea == eb) {
            rep.violation(mk("equality_mismatch", format!("a={} b={} equal={} but encodings equal={}", show(a), show(b), eq, ea == eb)));
        }
        if !eq && ord != ea.cmp(&eb) {
            rep.violation(mk("order_mismatch", format!("a={} b={} value order {:?} encoded order {:?}", show(a), show(b), ord, ea.cmp(&eb))));
        }
        if ea != eb && (eb.starts_with(&ea) || ea.starts_with(&eb)) {
            rep.violation(mk("prefix", format!("a={} b={}: one encoding is a proper prefix of the other", show(a), show(b))));
        }
    };
    // integers
    let ints = boundary_ints();
    for a in &ints {
        for b in &ints {
            check_pair("int", &PV::Int(*a), &PV::Int(*b), a.cmp(b), a == b, &rep);
            pairs += 1;
        }
    }
    // datetimes share the integer scheme
    for a in &ints {
        for b in [i64::MIN, -1, 0, 1, i64::MAX] {
            check_pair("datetime", &PV::DateTime(*a), &PV::DateTime(b), a.cmp(&b), *a == b, &rep);
            pairs += 1;
        }
    }
    // floats
    let mut floats = sweep_floats();
    floats.sort_by(|a, b| a.partial_cmp(b).unwrap());
    for w in floats.windows(2) {
        check_pair("float", &PV::Float(w[0]), &PV::Float(w[1]), w[0].partial_cmp(&w[1]).unwrap(), w[0] == w[1], &rep);
        pairs += 1;
    }
    let subset: Vec<f64> = {
        let step = tier.pick(64usize, 16);
        let mut s: Vec<f64> = floats.iter().step_by(step).copied().collect();
        s.extend([0.0, -0.0, f64::INFINITY, f64::NEG_INFINITY, f64::MIN_POSITIVE, -f64::MIN_POSITIVE, f64::from_bits(1), -f64::from_bits(1)]);
        s
    };
    let fl_pairs: u64 = subset
        .par_iter()
        .map(|a| {
            let mut n = 0;
            for b in &subset {
                check_pair("float", &PV::Float(*a), &PV::Float(*b), a.partial_cmp(b).unwrap(), a == b, &rep);
                n += 1;
            }
            n
        })
        .sum();
    pairs += fl_pairs;
    // strings (valid UTF-8 only) and blobs
    let slen = tier.pick(4, 5);
    let strs: Vec<String> = byte_strings(&[0x00, 0x01, 0x61, 0x7F], slen).into_iter().map(|b| String::from_utf8(b).unwrap()).collect();
    let st_pairs: u64 = strs
        .par_iter()
        .map(|a| {
            let mut n = 0;
            for b in &strs {
                check_pair("string", &PV::String(a.clone()), &PV::String(b.clone()), a.as_bytes().cmp(b.as_bytes()), a == b, &rep);
                n += 1;
            }
            n
        })
        .sum();
    pairs += st_pairs;
    let blobs = byte_strings(&[0x00, 0x01, 0x61, 0xFF], slen.min(4));
    let bl_pairs: u64 = blobs
        .par_iter()
        .map(|a| {
            let mut n = 0;
            for b in &blobs {
                check_pair("blob", &PV::Blob(a.clone()), &PV::Blob(b.clone()), a.cmp(b), a == b, &rep);
                n += 1;
            }
            n
        })
        .sum();
    pairs += bl_pairs;
    for a in [false, true] {
        for b in [false, true] {
            check_pair("bool", &PV::Bool(a), &PV::Bool(b), a.cmp(&b), a == b, &rep);
            pairs += 1;
        }
    }
    // prefix-freedom across values of one kind when the node-id suffix follows (index keys are value ++ node id)
    let mut encs: Vec<(String, Vec<u8>)> = Vec::new();
    for s in strs.iter().take(400) {
        encs.push((format!("{s:?}"), encode_ordered_value(&PV::String(s.clone()))));
    }
    let mut suffix_viol = 0;
    for (na, a) in &encs {
        for (nb, b) in &encs {
            if a != b {
                for id in [0u64, 1, u64::MAX] {
                    let mut ka = a.clone();
                    ka.extend_from_slice(&id.to_be_bytes());
                    if ka.starts_with(b) && suffix_viol < 3 {
                        suffix_viol += 1;
                        rep.violation(Violation { class: "string:prefix_with_suffix".into(), kinds: vec!["string".into()], replay: json!({"a": na, "b": nb}), detail: format!("enc({na}) ++ node id starts with enc({nb})") });
                    }
                    pairs += 1;
                }
            }
        }
    }
    rep.add_states(ints.len() as u64 + floats.len() as u64 + strs.len() as u64 + blobs.len() as u64 + 2);
    rep.add_transitions(pairs);
    rep.add_evals(pairs);
    rep.add_nontrivial(pairs);
    rep.add_traces(pairs);
    rep.sample(json!({"int_pair": [i64::MAX, i64::MIN], "float_pair": [0.0, -0.0], "string_pair": ["a\u{0}", "a"]}));
    rep.set("values", json!({"ints": ints.len(), "floats": floats.len(), "float_all_pairs_subset": subset.len(), "strings": strs.len(), "blobs": blobs.len()}));
    rep.outcome(if rep.violation_count() == 0 { "order_preserved" } else { "mismatch" });
    rep.outcome("checked");
    rep.finish()
}

// ---------------------------------------------------------------------------------------------
// C25 Value and log encodings round-trip safely
// ---------------------------------------------------------------------------------------------

fn pv_leaves() -> Vec<PV> {
    vec![
        PV::Null,
        PV::Bool(true),
        PV::Bool(false),
        PV::Int(0),
        PV::Int(-1),
        PV::Int(i64::MIN),
        PV::Float(0.0),
        PV::Float(-0.0),
        PV::Float(f64::from_bits(0x7ff8_0000_0000_0000)),
        PV::Float(f64::from_bits(0x7ff0_0000_0000_0001)),
        PV::Float(f64::from_bits(0xfff8_0000_0000_beef)),
        PV::Float(f64::INFINITY),
        PV::String(String::new()),
        PV::String("é".into()),
        PV::String("\0".into()),
        PV::DateTime(0),
        PV::Blob(vec![]),
        PV::Blob(vec![0]),
    ]
}

fn pv_compound(children: &[PV]) -> Vec<PV> {
    let mut out = Vec::new();
    out.push(PV::List(vec![]));
    out.push(PV::Map(BTreeMap::new()));
    for a in children {
        out.push(PV::List(vec![a.clone()]));
        out.push(PV::Map(BTreeMap::from([("".to_string(), a.clone())])));
        out.push(PV::Map(BTreeMap::from([("a".to_string(), a.clone())])));
    }
    for a in children {
        for b in children {
            out.push(PV::List(vec![a.clone(), b.clone()]));
            out.push(PV::Map(BTreeMap::from([("".to_string(), a.clone()), ("é".to_string(), b.clone())])));
        }
    }
    out
}

fn wal_records() -> Vec<WalRecord> {
    let mut v = Vec::new();
    let u64s = [0u64, 1, u64::MAX];
    let u32s = [0u32, 1, u32::MAX];
    for &t in &u64s {
        v.push(WalRecord::BeginTx { txid: t });
        v.push(WalRecord::CommitTx { txid: t });
        v.push(WalRecord::PageFree { page_id: t });
        let mut page = Box::new([0u8; nervusdb::PAGE_SIZE]);
        page[0] = t as u8;
        page[nervusdb::PAGE_SIZE - 1] = 0xAB;
        v.push(WalRecord::PageWrite { page_id: t, page });
    }
    for name in ["", "A", "é\0"] {
        for &l in &u32s {
            v.push(WalRecord::CreateLabel { name: name.to_string(), label_id: l });
        }
    }
    for &e in &u64s {
        for &l in &u32s {
            for &i in &u32s {
                v.push(WalRecord::CreateNode { external_id: e, label_id: l, internal_id: i });
            }
        }
    }
    for &a in &u32s {
        for &b in &u32s {
            v.push(WalRecord::AddNodeLabel { node: a, label_id: b });
            v.push(WalRecord::RemoveNodeLabel { node: a, label_id: b });
            v.push(WalRecord::TombstoneNode { node: a });
            for &c in &u32s {
                v.push(WalRecord::CreateEdge { src: a, rel: b, dst: c });
                v.push(WalRecord::TombstoneEdge { src: a, rel: b, dst: c });
            }
        }
    }
    for segs in [vec![], vec![SegmentPointer { id: 1, meta_page_id: 7 }], vec![SegmentPointer { id: u64::MAX, meta_page_id: 0 }, SegmentPointer { id: 2, meta_page_id: u64::MAX }]] {
        for &e in &u64s {
            v.push(WalRecord::ManifestSwitch { epoch: e, segments: segs.clone(), properties_root: e, stats_root: 3 });
        }
    }
    for &e in &u64s {
        v.push(WalRecord::Checkpoint { up_to_txid: e, epoch: 1, properties_root: e, stats_root: 0 });
    }
    let vals = {
        let l = pv_leaves();
        let mut x = l.clone();
        x.extend(pv_compound(&l[..4]));
        x
    };
    for key in ["", "k", "é"] {
        for val in &vals {
            v.push(WalRecord::SetNodeProperty { node: 1, key: key.to_string(), value: val.clone() });
            v.push(WalRecord::SetEdgeProperty { src: 1, rel: u32::MAX, dst: 0, key: key.to_string(), value: val.clone() });
        }
        v.push(WalRecord::RemoveNodeProperty { node: 0, key: key.to_string() });
        v.push(WalRecord::RemoveEdgeProperty { src: 0, rel: 1, dst: 2, key: key.to_string() });
    }
    v
}

const DEC_ALPHA: [u8; 14] = [0, 1, 2, 3, 4, 5, 6, 7, 8, 9, 0x7F, 0x80, 0xFE, 0xFF];

fn nth_bytes(mut idx: u64, max_len: usize) -> Vec<u8> {
    // enumeration order: length 0, then all of length 1, ...
    let n = DEC_ALPHA.len() as u64;
    let mut len = 0usize;
    let mut block = 1u64;
    while idx >= block && len < max_len {
        idx -= block;
        block *= n;
        len += 1;
    }
    let mut out = vec![0u8; len];
    for i in (0..len).rev() {
        out[i] = DEC_ALPHA[(idx % n) as usize];
        idx /= n;
    }
    out
}

fn count_bytes(max_len: usize) -> u64 {
    let n = DEC_ALPHA.len() as u64;
    (0..=max_len as u32).map(|l| n.pow(l)).sum()
}

fn family_inputs(family: &str) -> Vec<(String, Vec<u8>)> {
    let mut out = Vec::new();
    match family {
        "deep" => {
            for d in [10usize, 1_000, 100_000, 200_000] {
                for tag in [7u8, 8] {
                    let mut b = Vec::new();
                    for _ in 0..d {
                        b.push(tag);
                        b.extend_from_slice(&1u32.to_le_bytes());
                        if tag == 8 {
                            b.extend_from_slice(&0u32.to_le_bytes()); // empty key
                        }
                    }
                    b.push(0);
                    out.push((format!("nest{tag}x{d}"), b));
                }
            }
            for n in [10u32, 1_000, 100_000, u32::MAX] {
                for tag in [7u8, 8] {
                    let mut b = vec![tag];
                    b.extend_from_slice(&n.to_le_bytes());
                    out.push((format!("count{tag}x{n}"), b));
                }
            }
        }
        "mutate" => {
            let mut seeds: Vec<Vec<u8>> = pv_leaves().iter().map(|v| v.encode()).collect();
            seeds.extend(pv_compound(&pv_leaves()[..6]).iter().map(|v| v.encode()));
            for s in seeds {
                for l in 0..s.len() {
                    out.push(("trunc".into(), s[..l].to_vec()));
                }
                for i in 0..s.len() {
                    for x in [0x00u8, 0x01, 0x07, 0x08, 0x7F, 0x80, 0xFF] {
                        if s[i] != x {
                            let mut m = s.clone();
                            m[i] = x;
                            out.push(("subst".into(), m));
                        }
                    }
                }
            }
        }
        "walmutate" => {
            for r in wal_records() {
                if matches!(r, WalRecord::PageWrite { .. }) {
                    continue;
                }
                let s = r.verif_encode_body().unwrap();
                for l in 0..s.len() {
                    out.push(("trunc".into(), s[..l].to_vec()));
                }
                for i in 0..s.len() {
                    for x in [0x00u8, 0x07, 0x08, 0x80, 0xFF] {
                        if s[i] != x {
                            let mut m = s.clone();
                            m[i] = x;
                            out.push(("subst".into(), m));
                        }
                    }
                }
            }
        }
        _ => {}
    }
    out
}

/// Child side of the decoder sweeps.  Families: "bytes<L>" (all byte strings up to length L over
/// DEC_ALPHA, fed to PropertyValue::decode and, prefixed with record types 11/12/9/15, to the WAL
/// body decoder), "deep", "mutate", "walmutate".
pub fn c25_child(family: &str, start: u64, end: u64) -> i32 {
    child::apply_limits(512 << 20, 120);
    let feed = |i: u64, name: &str, bytes: &[u8]| {
        println!("AT {i}");
        let r = catch(|| {
            let _ = PV::decode(bytes);
            let _ = WalRecord::verif_decode_body(bytes);
            for ty in [11u8, 12, 9, 15, 13] {
                let mut b = vec![ty];
                if ty == 11 {
                    b.extend_from_slice(&[0, 0, 0, 0, 0, 0, 0, 0]);
                }
                if ty == 12 {
                    b.extend_from_slice(&[0; 16]);
                }
                b.extend_from_slice(bytes);
                let _ = WalRecord::verif_decode_body(&b);
            }
        });
        if let Err(p) = r {
            println!("BAD {i} {name}: {p}");
        }
    };
    if let Some(l) = family.strip_prefix("bytes") {
        let max_len: usize = l.parse().unwrap_or(4);
        for i in start..end {
            let b = nth_bytes(i, max_len);
            feed(i, "bytes", &b);
        }
    } else {
        let inputs = family_inputs(family);
        for i in start..end.min(inputs.len() as u64) {
            let (name, b) = &inputs[i as usize];
            feed(i, name, b);
        }
    }
    println!("DONE {}", end - start);
    0
}

pub fn c25(tier: Tier) -> i32 {
    let rep = Report::new("C25", tier);
    rep.rule("(a) every PropertyValue tree of depth <= 2 with <= 2 children over 18 leaves (signed zeros, three NaN payloads, empty / non-ASCII / NUL strings, blobs): decode(encode(v)) re-encodes to identical bytes; (b) every WalRecord variant over small field alphabets: same through the real record codec; (c) EVERY byte string up to the stated length over a 14-symbol alphabet, every truncation and byte substitution of the encodings of (a),(b), and the nesting / count families, fed to PropertyValue::decode and the WAL record decoder inside child processes with a 512 MiB address-space limit: outcome must be a value or an error, never a panic, abort or kill; non-trivial = inputs decoded");
    // (a)
    let leaves = pv_leaves();
    let d1 = {
        let mut v = leaves.clone();
        v.extend(pv_compound(&leaves));
        v
    };
    let d2: Vec<PV> = {
        let mut v = d1.clone();
        // depth 2: children taken from a thinned depth-1 set to keep all pairs enumerable
        let kids: Vec<PV> = d1.iter().step_by(tier.pick(7, 3)).cloned().collect();
        v.extend(pv_compound(&kids));
        v
    };
    let bad: Vec<Violation> = d2
        .par_iter()
        .filter_map(|v| {
            let e = v.encode();
            match catch(|| PV::decode(&e)) {
                Ok(Ok(back)) => {
                    if back.encode() != e {
                        Some(Violation { class: "value_roundtrip_mismatch".into(), kinds: vec!["value".into()], replay: json!({"value": truncate(&format!("{v:?}"), 200)}), detail: format!("decoded to {}", truncate(&format!("{back:?}"), 200)) })
                    } else {
                        None
                    }
                }
                Ok(Err(err)) => Some(Violation { class: "value_roundtrip_error".into(), kinds: vec!["value".into()], replay: json!({"value": truncate(&format!("{v:?}"), 200)}), detail: format!("{err:?}") }),
                Err(p) => Some(Violation { class: "value_roundtrip_panic".into(), kinds: vec!["value".into()], replay: json!({"value": truncate(&format!("{v:?}"), 200)}), detail: p }),
            }
        })
        .collect();
    for b in bad {
        rep.violation(b);
    }
    rep.add_states(d2.len() as u64);
    rep.add_transitions(d2.len() as u64);
    rep.add_traces(d2.len() as u64);
    rep.set("value_trees", json!(d2.len()));
    // (b)
    let recs = wal_records();
    for r in &recs {
        let res = catch(|| {
            let body = r.verif_encode_body().map_err(|e| e.to_string())?;
            let back = WalRecord::verif_decode_body(&body).map_err(|e| e.to_string())?;
            let again = back.verif_encode_body().map_err(|e| e.to_string())?;
            if again != body { Err(format!("re-encoded bytes differ for {}", truncate(&format!("{r:?}"), 120))) } else { Ok(()) }
        });
        match res {
            Ok(Ok(())) => {}
            Ok(Err(e)) => rep.violation(Violation { class: "wal_record_roundtrip".into(), kinds: vec!["wal".into()], replay: json!({"record": truncate(&format!("{r:?}"), 200)}), detail: e }),
            Err(p) => rep.violation(Violation { class: "wal_record_roundtrip_panic".into(), kinds: vec!["wal".into()], replay: json!({"record": truncate(&format!("{r:?}"), 200)}), detail: p }),
        }
    }
    rep.add_states(recs.len() as u64);
    rep.add_transitions(recs.len() as u64);
    rep.add_traces(recs.len() as u64);
    rep.set("wal_records", json!(recs.len()));
    // (c) child sweeps
    let max_len = tier.pick(4usize, 6);
    let fam = format!("bytes{max_len}");
    let mut families: Vec<(String, u64, u64)> = vec![(fam.clone(), count_bytes(max_len), tier.pick(4_000, 60_000))];
    for f in ["deep", "mutate", "walmutate"] {
        let n = family_inputs(f).len() as u64;
        families.push((f.to_string(), n, if f == "deep" { 1 } else { 2_000 }));
    }
    let mut fam_report = Vec::new();
    for (f, total, chunk) in families {
        let (bad, crashes, done) = child::sweep("C25", &f, total, chunk, 300);
        rep.add_states(done);
        rep.add_transitions(done);
        rep.add_traces(done);
        rep.add_nontrivial(done);
        rep.add_evals(done);
        fam_report.push(json!({"family": f, "inputs": total, "done": done, "panics": bad.len(), "process_deaths": crashes.len()}));
        let describe_input = |f: &str, i: u64| -> String {
            if let Some(l) = f.strip_prefix("bytes") {
                format!("{:02x?}", nth_bytes(i, l.parse().unwrap_or(4)))
            } else {
                let inp = family_inputs(f);
                inp.get(i as usize).map(|(n, b)| format!("{n} len={} head={:02x?}", b.len(), &b[..b.len().min(12)])).unwrap_or_default()
            }
        };
        let shape = |f: &str, i: u64| -> String {
            // abstract shape of the input for the violation signature
            if let Some(l) = f.strip_prefix("bytes") {
                let b = nth_bytes(i, l.parse().unwrap_or(4));
                format!("first_byte={:02x}", b.first().copied().unwrap_or(0))
            } else {
                family_inputs(f).get(i as usize).map(|(n, _)| n.chars().take_while(|c| !c.is_ascii_digit()).collect::<String>()).unwrap_or_default()
            }
        };
        for (i, msg) in bad.iter().take(50) {
            rep.violation(Violation { class: format!("decoder_panic:{}", msg.split("PANIC@").nth(1).and_then(|s| s.split(':').next()).unwrap_or("?")), kinds: vec![f.clone(), shape(&f, *i)], replay: json!({"family": f, "index": i, "input": describe_input(&f, *i)}), detail: msg.clone() });
        }
        for (i, how) in crashes.iter().take(50) {
            rep.violation(Violation { class: format!("decoder_kills_process:{}", how.split(' ').next().unwrap_or("")), kinds: vec![f.clone(), shape(&f, *i)], replay: json!({"family": f, "index": i, "input": describe_input(&f, *i)}), detail: format!("child process died: {how}") });
        }
        rep.outcome(&format!("{f}:panics={},deaths={}", bad.len().min(1), crashes.len().min(1)));
    }
    rep.set("families", json!(fam_report));
    rep.sample(json!({"bytes_example": format!("{:02x?}", nth_bytes(count_bytes(3) + 5, 4)), "value_example": format!("{:?}", d2[d2.len() / 2])}));
    rep.assume("allocation bound is enforced by a 512 MiB address-space limit on the decoding child (inputs are at most 1 MiB)");
    rep.finish()
}

// ---------------------------------------------------------------------------------------------
// C26 The on-disk B-tree behaves as a sorted multimap
// ---------------------------------------------------------------------------------------------

#[derive(Clone, Copy, Debug, PartialEq, Eq, Hash)]
enum BOp {
    Insert(u8),
    DeleteNewest(u8),
    DeleteOldest(u8),
    DeleteAbsent,
    Reopen,
    /// a key of the given length ('m' bytes): sweeps the free-space boundary of a leaf
    InsertLen(u16),
}

fn bkey(k: u8) -> Vec<u8> {
    // keys 0,1: short; 2,3: 2000 bytes (4 cells per leaf)
    match k {
        0 => b"a".to_vec(),
        1 => b"b".to_vec(),
        2 => {
            let mut v = vec![b'a'; 2000];
            v[1999] = b'x';
            v
        }
        _ => {
            let mut v = vec![b'b'; 2000];
            v[1999] = b'x';
            v
        }
    }
}

fn bops(nkeys: u8) -> Vec<BOp> {
    let mut v = Vec::new();
    for k in 0..nkeys {
        v.push(BOp::Insert(k));
    }
    for k in 0..nkeys {
        v.push(BOp::DeleteNewest(k));
        v.push(BOp::DeleteOldest(k));
    }
    v.push(BOp::DeleteAbsent);
    v.push(BOp::Reopen);
    v
}

/// Reference multimap: per key the payloads in insertion order.
#[derive(Clone, Default)]
struct MultiMap {
    m: BTreeMap<Vec<u8>, Vec<u64>>,
    next_payload: u64,
}

fn btree_scan(tree: &BTree, pager: &Pager) -> Result<Vec<(Vec<u8>, u64)>, String> {
    let mut out = Vec::new();
    let mut cur = tree.cursor_lower_bound(pager, &[]).map_err(|e| e.to_string())?;
    while cur.is_valid().map_err(|e| e.to_string())? {
        out.push((cur.key().map_err(|e| e.to_string())?, cur.payload().map_err(|e| e.to_string())?));
        if !cur.advance().map_err(|e| e.to_string())? {
            break;
        }
        if out.len() > 10_000 {
            return Err("scan does not terminate".into());
        }
    }
    Ok(out)
}

fn btree_lookup(tree: &BTree, pager: &Pager, key: &[u8]) -> Result<Option<u64>, String> {
    let mut cur = tree.cursor_lower_bound(pager, key).map_err(|e| e.to_string())?;
    if cur.is_valid().map_err(|e| e.to_string())? && cur.key().map_err(|e| e.to_string())? == key {
        return Ok(Some(cur.payload().map_err(|e| e.to_string())?));
    }
    Ok(None)
}

/// Executes a sequence from an empty tree; returns the first violation (class, detail).
fn btree_run(seq: &[BOp], dir: &std::path::Path) -> Option<(String, String)> {
    let path = dir.join("t.ndb");
    let _ = std::fs::remove_file(&path);
    let r = catch(|| -> Option<(String, String)> {
        let mut pager = Pager::open(&path).ok()?;
        let mut tree = BTree::create(&mut pager).ok()?;
        let mut model = MultiMap::default();
        for (step, op) in seq.iter().enumerate() {
            match op {
                BOp::Insert(k) => {
                    let key = bkey(*k);
                    model.next_payload += 1;
                    let p = model.next_payload;
                    if let Err(e) = tree.insert(&mut pager, &key, p) {
                        return Some(("insert_failed".into(), format!("step {step}: {e}")));
                    }
                    model.m.entry(key).or_default().push(p);
                }
                BOp::InsertLen(len) => {
                    let key = vec![b'm'; *len as usize];
                    model.next_payload += 1;
                    let p = model.next_payload;
                    if let Err(e) = tree.insert(&mut pager, &key, p) {
                        return Some(("insert_failed".into(), format!("step {step}: {e}")));
                    }
                    model.m.entry(key).or_default().push(p);
                }
                BOp::DeleteNewest(k) | BOp::DeleteOldest(k) => {
                    let key = bkey(*k);
                    let Some(list) = model.m.get_mut(&key) else { return Some(("harness".into(), "delete of absent key generated".into())) };
                    let p = if matches!(op, BOp::DeleteNewest(_)) { list.pop().unwrap() } else { list.remove(0) };
                    if list.is_empty() {
                        model.m.remove(&key);
                    }
                    match tree.delete(&mut pager, &key, p) {
                        Ok(true) => {}
                        Ok(false) => return Some(("delete_existing_returns_false".into(), format!("step {step}: pair (key {k}, payload {p}) is stored but delete returned false"))),
                        Err(e) => return Some(("delete_failed".into(), format!("step {step}: {e}"))),
                    }
                }
                BOp::DeleteAbsent => match tree.delete(&mut pager, b"zz", 424242) {
                    Ok(false) => {}
                    Ok(true) => return Some(("delete_absent_returns_true".into(), format!("step {step}"))),
                    Err(e) => return Some(("delete_failed".into(), format!("step {step}: {e}"))),
                },
                BOp::Reopen => {
                    let root = tree.root();
                    drop(pager);
                    pager = match Pager::open(&path) {
                        Ok(p) => p,
                        Err(e) => return Some(("reopen_failed".into(), e.to_string())),
                    };
                    tree = BTree::load(root);
                }
            }
            // observations after every step
            let scan = match btree_scan(&tree, &pager) {
                Ok(s) => s,
                Err(e) => return Some(("scan_failed".into(), format!("step {step}: {e}"))),
            };
            let mut want: Vec<(Vec<u8>, u64)> = Vec::new();
            for (k, ps) in &model.m {
                for p in ps {
                    want.push((k.clone(), *p));
                }
            }
            let mut got_sorted = scan.clone();
            got_sorted.sort();
            let mut want_sorted = want.clone();
            want_sorted.sort();
            if got_sorted != want_sorted {
                let short = |v: &[(Vec<u8>, u64)]| v.iter().map(|(k, p)| format!("{}{}:{p}", k.first().map(|b| *b as char).unwrap_or('?'), if k.len() > 1 { format!("[{}]", k.len()) } else { String::new() })).collect::<Vec<_>>().join(",");
                let class = if got_sorted.len() < want_sorted.len() { "scan_misses_pairs" } else if got_sorted.len() > want_sorted.len() { "scan_has_extra_pairs" } else { "scan_wrong_pairs" };
                return Some((class.into(), format!("step {step}: scan [{}] expected [{}]", short(&scan), short(&want))));
            }
            if scan.windows(2).any(|w| w[0].0 > w[1].0) {
                return Some(("scan_out_of_key_order".into(), format!("step {step}")));
            }
            let mut probe: Vec<Vec<u8>> = (0..4u8).map(bkey).collect();
            for k in model.m.keys() {
                if !probe.contains(k) {
                    probe.push(k.clone());
                }
            }
            for (k, key) in probe.iter().enumerate() {
                let got = match btree_lookup(&tree, &pager, key) {
                    Ok(g) => g,
                    Err(e) => return Some(("lookup_failed".into(), format!("step {step}: {e}"))),
                };
                let want = model.m.get(key).and_then(|l| l.last().copied());
                if got != want {
                    let class = if got.is_none() { "lookup_misses_key" } else if want.is_none() { "lookup_finds_deleted_key" } else { "lookup_not_newest" };
                    return Some((class.into(), format!("step {step}: lookup(key {k}) = {got:?}, newest stored payload is {want:?}")));
                }
            }
        }
        None
    });
    match r {
        Ok(v) => v,
        Err(p) => Some((format!("panic:{}", p.split(": ").next().unwrap_or("")), p)),
    }
}

pub fn c26(tier: Tier) -> i32 {
    let rep = Report::new("C26", tier);
    rep.rule("all enabled sequences up to the stated length over {insert(key, fresh payload) for 4 keys (2 short, 2 of 2000 bytes so that a leaf holds 4 cells), delete(newest pair of key), delete(oldest pair of key), delete(absent pair), reopen pager} executed on the real BTree + Pager from an empty tree; after EVERY step: full scan == reference multimap (as a multiset, keys non-decreasing), lookup(key) == most recently inserted payload for each key; then (b) a longer family of pure insert sequences (all sequences over the 2 long keys up to the stated length) that reaches leaf and internal splits; (c) from a NON-INITIAL state of 12 long-key entries (3+ leaves) every sequence up to the stated length over delete newest / oldest of both keys and insert (empties whole leaves); (d) a leaf free-space boundary sweep: after 0..2 short and 3 long keys one key of every length 1..=2300 is inserted (every possible free gap relative to the cell size); non-trivial = sequences with at least one split (>= 5 long-key entries) or a delete");
    let ops = bops(4);
    let depth = tier.pick(6usize, 8);
    // enumerate level by level with enabledness; violating prefixes are not extended
    let mut frontier: Vec<Vec<BOp>> = vec![vec![]];
    let cap = tier.pick(50.0, 2400.0);
    let mut completed = 0;
    for d in 1..=depth {
        let cands: Vec<Vec<BOp>> = frontier
            .par_iter()
            .flat_map_iter(|s| {
                let mut counts = [0u32; 4];
                for op in s {
                    match op {
                        BOp::Insert(k) => counts[*k as usize] += 1,
                        BOp::DeleteNewest(k) | BOp::DeleteOldest(k) => counts[*k as usize] -= 1,
                        _ => {}
                    }
                }
                let mut out = Vec::new();
                for op in &ops {
                    let ok = match op {
                        BOp::DeleteNewest(k) => counts[*k as usize] >= 1,
                        BOp::DeleteOldest(k) => counts[*k as usize] >= 2, // with one pair it equals DeleteNewest
                        BOp::Reopen => !matches!(s.last(), Some(BOp::Reopen)) && !s.is_empty(),
                        BOp::DeleteAbsent => !matches!(s.last(), Some(BOp::DeleteAbsent)),
                        _ => true,
                    };
                    if ok {
                        let mut n = s.clone();
                        n.push(*op);
                        out.push(n);
                    }
                }
                out
            })
            .collect();
        if rep.elapsed() > cap {
            rep.not_exhaustive(&format!("wall cap before depth {d}"));
            break;
        }
        let results: Vec<(Vec<BOp>, Option<(String, String)>)> = cands
            .par_iter()
            .map_init(
                || scratch_dir("bt"),
                |dir, s| {
                    let r = btree_run(s, dir);
                    (s.clone(), r)
                },
            )
            .collect();
        let mut next = Vec::new();
        for (s, r) in results {
            rep.add_states(1);
            rep.add_traces(1);
            rep.add_transitions(s.len() as u64);
            rep.add_evals(1);
            if s.iter().any(|o| matches!(o, BOp::DeleteNewest(_) | BOp::DeleteOldest(_))) {
                rep.add_nontrivial(1);
            }
            match r {
                None => {
                    rep.outcome("multimap");
                    next.push(s);
                }
                Some((class, detail)) => {
                    rep.outcome(&class);
                    rep.violation(Violation { class, kinds: s.iter().map(|o| format!("{o:?}")).collect(), replay: json!({"engine":"btree","sequence": s.iter().map(|o| format!("{o:?}")).collect::<Vec<_>>()}), detail });
                }
            }
        }
        completed = d;
        if let Some(s) = next.get(next.len() / 2) {
            rep.sample(json!(s.iter().map(|o| format!("{o:?}")).collect::<Vec<_>>()));
        }
        frontier = next;
    }
    rep.set("completed_depth", json!(completed));
    // long-key insert family (reaches splits): all sequences over {Insert(2), Insert(3)} of length <= L
    let l = tier.pick(13usize, 16);
    let total: u64 = (1..=l as u32).map(|n| 2u64.pow(n)).sum();
    let fam: Vec<(Vec<BOp>, Option<(String, String)>)> = (0..total)
        .into_par_iter()
        .map_init(
            || scratch_dir("btf"),
            |dir, mut idx| {
                let mut len = 1usize;
                let mut block = 2u64;
                while idx >= block {
                    idx -= block;
                    block *= 2;
                    len += 1;
                }
                let s: Vec<BOp> = (0..len).map(|i| BOp::Insert(2 + ((idx >> i) & 1) as u8)).collect();
                let r = btree_run(&s, dir);
                (s, r)
            },
        )
        .collect();
    let mut fam_bad = 0;
    for (s, r) in fam {
        rep.add_states(1);
        rep.add_traces(1);
        rep.add_transitions(s.len() as u64);
        if s.len() >= 5 {
            rep.add_nontrivial(1);
        }
        if let Some((class, detail)) = r {
            fam_bad += 1;
            // report only minimal ones: no proper prefix violates (prefixes are in the family too)
            rep.violation(Violation { class: format!("split_family:{class}"), kinds: vec![format!("inserts={}", s.len())], replay: json!({"engine":"btree","sequence": s.iter().map(|o| format!("{o:?}")).collect::<Vec<_>>()}), detail });
        }
    }
    rep.set("split_family", json!({"max_len": l, "sequences": total, "violating": fam_bad}));
    // (c) non-initial start: 12 long-key entries (3+ leaves), then every sequence of deletes / inserts up to D
    let pre: Vec<BOp> = (0..12).map(|i| BOp::Insert(2 + (i % 2) as u8)).collect();
    let dops = [BOp::DeleteNewest(2), BOp::DeleteOldest(2), BOp::DeleteNewest(3), BOp::DeleteOldest(3), BOp::Insert(3)];
    let dd = tier.pick(6u32, 8);
    let dtotal: u64 = (1..=dd).map(|n| (dops.len() as u64).pow(n)).sum();
    let dres: Vec<(Vec<BOp>, Option<(String, String)>)> = (0..dtotal)
        .into_par_iter()
        .map_init(
            || scratch_dir("btd"),
            |dir, mut idx| {
                let n = dops.len() as u64;
                let mut len = 1u32;
                let mut block = n;
                while idx >= block {
                    idx -= block;
                    block *= n;
                    len += 1;
                }
                let mut s = pre.clone();
                for _ in 0..len {
                    s.push(dops[(idx % n) as usize]);
                    idx /= n;
                }
                // skip sequences that delete more pairs of a key than are stored
                let mut c = [6i32, 6];
                let mut ok = true;
                for op in &s[12..] {
                    match op {
                        BOp::DeleteNewest(k) | BOp::DeleteOldest(k) => {
                            c[(*k - 2) as usize] -= 1;
                            if c[(*k - 2) as usize] < 0 {
                                ok = false;
                            }
                        }
                        BOp::Insert(k) => c[(*k - 2) as usize] += 1,
                        _ => {}
                    }
                }
                if !ok {
                    return (s, Some(("skip".to_string(), String::new())));
                }
                let r = btree_run(&s, dir);
                (s, r)
            },
        )
        .collect();
    let mut dbad = 0;
    let mut drun = 0u64;
    for (s, r) in dres {
        if matches!(&r, Some((c, _)) if c == "skip") {
            continue;
        }
        drun += 1;
        rep.add_states(1);
        rep.add_traces(1);
        rep.add_transitions(s.len() as u64);
        rep.add_nontrivial(1);
        if let Some((class, detail)) = r {
            dbad += 1;
            let tail: Vec<String> = s[12..].iter().map(|o| format!("{o:?}")).collect();
            rep.violation(Violation { class: format!("prefilled_family:{class}"), kinds: tail.clone(), replay: json!({"engine":"btree","prefill":"12 alternating long-key inserts","sequence": tail}), detail });
        }
    }
    rep.set("prefilled_family", json!({"prefill_entries": 12, "max_len": dd, "sequences_run": drun, "violating": dbad}));
    // (d) leaf free-space boundary sweep: q short keys + 3 long keys, then one key of EVERY length 1..=2300
    let sweep: Vec<(u16, u16)> = (0..3u16).flat_map(|q| (1..=2300u16).map(move |l| (q, l))).collect();
    let sres: Vec<((u16, u16), Option<(String, String)>)> = sweep
        .par_iter()
        .map_init(
            || scratch_dir("bts"),
            |dir, &(q, l)| {
                let mut s: Vec<BOp> = (0..q).map(|i| BOp::Insert((i % 2) as u8)).collect();
                s.extend([BOp::Insert(2), BOp::Insert(3), BOp::Insert(2)]);
                s.push(BOp::InsertLen(l));
                s.push(BOp::Insert(0));
                ((q, l), btree_run(&s, dir))
            },
        )
        .collect();
    let mut sbad = 0;
    for ((q, l), r) in sres {
        rep.add_states(1);
        rep.add_traces(1);
        rep.add_transitions(5 + q as u64);
        rep.add_nontrivial(1);
        if let Some((class, detail)) = r {
            sbad += 1;
            rep.violation(Violation { class: format!("boundary_sweep:{class}"), kinds: vec![format!("short_keys={q}"), format!("len={l}")], replay: json!({"engine":"btree","short_keys": q, "long_keys": 3, "insert_len": l}), detail });
        }
    }
    rep.set("boundary_sweep", json!({"runs": 6900, "violating": sbad}));
    rep.finish()
}

// ---------------------------------------------------------------------------------------------
// C31 Vector search is sound and durable
// ---------------------------------------------------------------------------------------------

#[derive(Clone, Copy, Debug, PartialEq)]
enum VOp {
    Insert { id: u8, v: (i8, i8), level: u8 },
    DeleteNode(u8),
    Reopen,
    Compact,
}

fn dist(a: (i8, i8), b: (i8, i8)) -> f32 {
    let dx = a.0 as f32 - b.0 as f32;
    let dy = a.1 as f32 - b.1 as f32;
    (dx * dx + dy * dy).sqrt()
}

struct LevelHooks {
    level: std::sync::atomic::AtomicUsize,
}
impl nervusdb_storage::verif::Hooks for LevelHooks {
    fn hnsw_level(&self) -> Option<usize> {
        Some(self.level.load(std::sync::atomic::Ordering::SeqCst))
    }
}

fn hnsw_run(seq: &[VOp], queries: &[(i8, i8)], ks: &[usize]) -> Option<(String, String)> {
    use nervusdb::{Db, GraphSnapshot};
    let dir = scratch_dir("hnsw");
    let _g = ScratchGuard(dir.clone());
    let base = dir.join("v");
    let hooks = std::sync::Arc::new(LevelHooks { level: std::sync::atomic::AtomicUsize::new(0) });
    let h2 = hooks.clone();
    let r = catch(|| -> Option<(String, String)> {
        crate::rt::with_hooks(hooks.clone(), || {
            let mut db = Db::open(&base).ok()?;
            // five nodes, internal ids 0..4
            {
                let mut tx = db.begin_write();
                let l = tx.get_or_create_label("V").ok()?;
                for e in 1..=5u64 {
                    tx.create_node(e, l).ok()?;
                }
                tx.commit().ok()?;
            }
            let mut vectors: BTreeMap<u32, (i8, i8)> = BTreeMap::new();
            let mut deleted: std::collections::BTreeSet<u32> = Default::default();
            for (step, op) in seq.iter().enumerate() {
                match op {
                    VOp::Insert { id, v, level } => {
                        h2.level.store(*level as usize, std::sync::atomic::Ordering::SeqCst);
                        let mut tx = db.begin_write();
                        if let Err(e) = tx.set_vector(*id as u32, vec![v.0 as f32, v.1 as f32]) {
                            return Some(("insert_failed".into(), format!("step {step}: {e}")));
                        }
                        if let Err(e) = tx.commit() {
                            return Some(("commit_failed".into(), format!("step {step}: {e}")));
                        }
                        vectors.insert(*id as u32, *v);
                    }
                    VOp::DeleteNode(id) => {
                        let mut tx = db.begin_write();
                        tx.tombstone_node(*id as u32);
                        if let Err(e) = tx.commit() {
                            return Some(("commit_failed".into(), format!("step {step}: {e}")));
                        }
                        deleted.insert(*id as u32);
                    }
                    VOp::Reopen => {
                        drop(db);
                        db = match Db::open(&base) {
                            Ok(d) => d,
                            Err(e) => return Some(("reopen_failed".into(), e.to_string())),
                        };
                    }
                    VOp::Compact => {
                        if let Err(e) = db.compact() {
                            return Some(("compact_failed".into(), format!("step {step}: {e}")));
                        }
                    }
                }
                let live: BTreeMap<u32, (i8, i8)> = vectors.iter().filter(|(i, _)| !deleted.contains(i)).map(|(i, v)| (*i, *v)).collect();
                let snap = db.snapshot();
                let listed: std::collections::BTreeSet<u32> = snap.nodes().collect();
                for q in queries {
                    for &k in ks {
                        let hits = match db.search_vector(&[q.0 as f32, q.1 as f32], k) {
                            Ok(h) => h,
                            Err(e) => return Some(("search_failed".into(), format!("step {step}: {e}"))),
                        };
                        let ctx = format!("step {step} q={q:?} k={k} hits={hits:?} live={live:?}");
                        if hits.len() > k {
                            return Some(("more_than_k".into(), ctx));
                        }
                        let ids: Vec<u32> = hits.iter().map(|h| h.0).collect();
                        let mut uniq = ids.clone();
                        uniq.sort();
                        uniq.dedup();
                        if uniq.len() != ids.len() {
                            return Some(("duplicate_hit".into(), ctx));
                        }
                        for (id, d) in &hits {
                            if deleted.contains(id) || !listed.contains(id) {
                                return Some(("deleted_node_returned".into(), ctx));
                            }
                            let Some(v) = live.get(id) else { return Some(("node_without_vector_returned".into(), ctx)) };
                            if (dist(*v, *q) - d).abs() > 1e-4 {
                                // distance of a superseded vector?
                                return Some(("stale_or_wrong_distance".into(), ctx));
                            }
                        }
                        if hits.windows(2).any(|w| w[0].1 > w[1].1 + 1e-6) {
                            return Some(("not_sorted_by_distance".into(), ctx));
                        }
                        // exactness for small indexes (at most 2M+1 = 5 vectors ever stored)
                        let mut want: Vec<f32> = live.values().map(|v| dist(*v, *q)).collect();
                        want.sort_by(|a, b| a.partial_cmp(b).unwrap());
                        want.truncate(k);
                        let got: Vec<f32> = hits.iter().map(|h| h.1).collect();
                        if got.len() != want.len() || got.iter().zip(&want).any(|(a, b)| (a - b).abs() > 1e-4) {
                            return Some(("not_the_k_nearest".into(), format!("{ctx} expected distances {want:?}")));
                        }
                    }
                }
            }
            None
        })
    });
    match r {
        Ok(v) => v,
        Err(p) => Some((format!("panic:{}", p.split(": ").next().unwrap_or("")), p)),
    }
}

pub fn c31(tier: Tier) -> i32 {
    // SAFETY: set before any thread is spawned by this check.
    unsafe { std::env::set_var("NERVUSDB_HNSW_M", "2") };
    let rep = Report::new("C31", tier);
    rep.rule("NERVUSDB_HNSW_M=2; all sequences up to the stated length over {set_vector(node in 0..2, v in {(0,0),(1,0),(3,0),(1,1)}) with the HNSW level of the insert chosen exhaustively from {0,1,2}, delete node, reopen, compact}; plus a full-index family: exactly 2M+1 = 5 vectors, every assignment of the five nodes to six positions; after EVERY step all queries of a 3x3 grid x k in {1,2,5}: at most k hits, distinct, every hit a live node with a stored vector, exact Euclidean distance to the node's LATEST vector, non-decreasing, and (at most 5 vectors stored) exactly the k nearest; non-trivial = sequences with a re-insert, a delete or a reopen");
    let ids: Vec<u8> = vec![0, 1, 2];
    let vecs = [(0i8, 0i8), (1, 0), (3, 0), (1, 1)];
    let mut ops: Vec<VOp> = Vec::new();
    for &id in &ids {
        for &v in &vecs {
            for level in 0..3u8 {
                ops.push(VOp::Insert { id, v, level });
            }
        }
    }
    ops.push(VOp::DeleteNode(0));
    ops.push(VOp::DeleteNode(1));
    ops.push(VOp::Reopen);
    ops.push(VOp::Compact);
    let queries: Vec<(i8, i8)> = vec![(0, 0), (1, 0), (3, 0), (1, 1), (2, 2), (0, 3)];
    let ks = [1usize, 2, 5];
    let depth = tier.pick(3usize, 4);
    let cap = tier.pick(50.0, 2400.0);
    let mut frontier: Vec<Vec<VOp>> = vec![vec![]];
    let mut completed = 0;
    for d in 1..=depth {
        let cands: Vec<Vec<VOp>> = frontier
            .iter()
            .flat_map(|s| {
                let deleted: Vec<u8> = s.iter().filter_map(|o| if let VOp::DeleteNode(i) = o { Some(*i) } else { None }).collect();
                let mut out = Vec::new();
                for op in &ops {
                    let ok = match op {
                        VOp::Insert { id, .. } => !deleted.contains(id),
                        VOp::DeleteNode(i) => !deleted.contains(i),
                        VOp::Reopen => !s.is_empty() && !matches!(s.last(), Some(VOp::Reopen)),
                        VOp::Compact => !s.is_empty() && !matches!(s.last(), Some(VOp::Compact)),
                    };
                    if ok {
                        let mut n = s.clone();
                        n.push(*op);
                        out.push(n);
                    }
                }
                out
            })
            .collect();
        if rep.elapsed() > cap {
            rep.not_exhaustive(&format!("wall cap before depth {d}"));
            break;
        }
        let results: Vec<(Vec<VOp>, Option<(String, String)>)> = cands.par_iter().map(|s| (s.clone(), hnsw_run(s, &queries, &ks))).collect();
        let mut next = Vec::new();
        for (s, r) in results {
            rep.add_states(1);
            rep.add_traces(1);
            rep.add_transitions(s.len() as u64);
            rep.add_evals(1);
            let mut seen_ids = Vec::new();
            let mut nontrivial = false;
            for o in &s {
                match o {
                    VOp::Insert { id, .. } => {
                        if seen_ids.contains(id) {
                            nontrivial = true;
                        }
                        seen_ids.push(*id);
                    }
                    _ => nontrivial = true,
                }
            }
            if nontrivial {
                rep.add_nontrivial(1);
            }
            match r {
                None => {
                    rep.outcome("sound");
                    next.push(s);
                }
                Some((class, detail)) => {
                    rep.outcome(&class);
                    let kinds: Vec<String> = s
                        .iter()
                        .map(|o| match o {
                            VOp::Insert { id, level, .. } => format!("Insert(n{id},L{level})"),
                            VOp::DeleteNode(i) => format!("DeleteNode(n{i})"),
                            VOp::Reopen => "Reopen".into(),
                            VOp::Compact => "Compact".into(),
                        })
                        .collect();
                    rep.violation(Violation { class, kinds, replay: json!({"engine":"hnsw","sequence": s.iter().map(|o| format!("{o:?}")).collect::<Vec<_>>()}), detail });
                }
            }
        }
        completed = d;
        if let Some(s) = next.get(next.len() / 2) {
            rep.sample(json!(s.iter().map(|o| format!("{o:?}")).collect::<Vec<_>>()));
        }
        frontier = next;
    }
    rep.set("completed_depth", json!(completed));
    // full-index family: exactly 2M+1 = 5 vectors (one per node, inserted in node order at level 0), EVERY assignment of
    // the five vectors to six positions (hubs, clusters, duplicates); all five must be found
    {
        let pos = [(0i8, 0i8), (1, 0), (0, 1), (10, 0), (10, 1), (5, 5)];
        let total = (pos.len() as u64).pow(5);
        let res: Vec<(Vec<VOp>, Option<(String, String)>)> = (0..total)
            .into_par_iter()
            .map(|mut idx| {
                let mut s = Vec::new();
                for id in 0..5u8 {
                    s.push(VOp::Insert { id, v: pos[(idx % pos.len() as u64) as usize], level: 0 });
                    idx /= pos.len() as u64;
                }
                let r = hnsw_run(&s, &queries, &ks);
                (s, r)
            })
            .collect();
        let mut bad = 0;
        for (s, r) in res {
            rep.add_states(1);
            rep.add_traces(1);
            rep.add_transitions(5);
            rep.add_nontrivial(1);
            if let Some((class, detail)) = r {
                bad += 1;
                rep.outcome(&class);
                rep.violation(Violation { class: format!("full_index:{class}"), kinds: vec!["five_vectors".into()], replay: json!({"engine":"hnsw","sequence": s.iter().map(|o| format!("{o:?}")).collect::<Vec<_>>()}), detail });
            }
        }
        rep.set("full_index_family", json!({"assignments": total, "violating": bad}));
    }
    rep.assume("the HNSW level draw is the only randomness of the index and is replaced by an enumerated choice through the verif-hooks seam");
    rep.finish()
}
