//! E-SCHED: controlled cooperative scheduler over the verif-hooks seams and a preemption-bounded
//! exhaustive explorer (stateless model checking of the real code by re-execution).
use nervusdb_storage::verif::{self, Hooks};
use std::collections::{BTreeMap, BTreeSet};
use std::sync::{Arc, Condvar, Mutex};

/// Lifetime-erased pointer to a lock probe that lives on the stack of a parked thread.
#[derive(Clone, Copy)]
struct ProbePtr(*const (dyn Fn() -> bool + 'static));
unsafe impl Send for ProbePtr {}

#[derive(Clone)]
enum St {
    NotStarted,
    Parked { probe: Option<ProbePtr>, site: &'static str },
    Running,
    Finished,
}

#[derive(Clone, Debug)]
pub struct Point {
    /// enabled threads in canonical order (running thread first when it is still enabled)
    pub enabled: Vec<usize>,
    pub chosen_idx: usize,
    /// the thread that arrived at this point could have continued
    pub running_enabled: bool,
    pub site: &'static str,
    pub by: Option<usize>,
}

struct Inner {
    status: Vec<St>,
    current: Option<usize>,
    prefix: Vec<usize>,
    points: Vec<Point>,
    abort: bool,
    pub deadlock: Option<String>,
    pub diverged: bool,
    pub horizon_hit: bool,
    done: bool,
    horizon: usize,
}

pub struct Sched {
    inner: Mutex<Inner>,
    cv: Condvar,
    /// lock-order edges observed in this execution: (held, acquired)
    pub lock_edges: Mutex<BTreeSet<(&'static str, &'static str)>>,
    /// treat every I/O step as a scheduling point too
    pub io_points: bool,
}

struct AbortToken;

impl Sched {
    pub fn new(nthreads: usize, prefix: &[usize], io_points: bool) -> Arc<Self> {
        Arc::new(Sched {
            inner: Mutex::new(Inner {
                status: vec![St::NotStarted; nthreads],
                current: None,
                prefix: prefix.to_vec(),
                points: Vec::new(),
                abort: false,
                deadlock: None,
                diverged: false,
                horizon_hit: false,
                done: false,
                horizon: 20_000,
            }),
            cv: Condvar::new(),
            lock_edges: Mutex::new(BTreeSet::new()),
            io_points,
        })
    }

    /// Chooses the next thread to run.  `me` is the thread that just parked (if any).
    fn decide(&self, inner: &mut Inner, me: Option<usize>, site: &'static str) {
        let mut enabled: Vec<usize> = Vec::new();
        for (t, st) in inner.status.iter().enumerate() {
            if let St::Parked { probe, .. } = st {
                let ok = match probe {
                    None => true,
                    // SAFETY: the owner of the closure is parked inside `yield_point` and does not
                    // return before it is chosen, so the pointee is alive.
                    Some(p) => unsafe { (*p.0)() },
                };
                if ok {
                    enabled.push(t);
                }
            }
        }
        let running_enabled = me.is_some_and(|m| enabled.contains(&m));
        if let Some(m) = me {
            if running_enabled {
                enabled.retain(|t| *t != m);
                enabled.insert(0, m);
            }
        }
        if enabled.is_empty() {
            let unfinished: Vec<usize> = inner.status.iter().enumerate().filter(|(_, s)| !matches!(s, St::Finished)).map(|(t, _)| t).collect();
            if unfinished.is_empty() {
                inner.done = true;
                inner.current = None;
            } else {
                let desc: Vec<String> = unfinished
                    .iter()
                    .map(|t| match &inner.status[*t] {
                        St::Parked { site, .. } => format!("T{t}@{site}"),
                        _ => format!("T{t}"),
                    })
                    .collect();
                inner.deadlock = Some(desc.join(" "));
                inner.abort = true;
                inner.current = None;
            }
            return;
        }
        if inner.points.len() >= inner.horizon {
            inner.horizon_hit = true;
            inner.abort = true;
            inner.current = None;
            return;
        }
        let pos = inner.points.len();
        let idx = if pos < inner.prefix.len() { inner.prefix[pos] } else { 0 };
        if idx >= enabled.len() {
            inner.diverged = true;
            inner.abort = true;
            inner.current = None;
            return;
        }
        inner.current = Some(enabled[idx]);
        inner.points.push(Point { enabled, chosen_idx: idx, running_enabled, site, by: me });
    }

    fn yield_point(&self, me: usize, site: &'static str, probe: Option<ProbePtr>) {
        let mut g = self.inner.lock().unwrap();
        if g.abort {
            drop(g);
            std::panic::resume_unwind(Box::new(AbortToken));
        }
        g.status[me] = St::Parked { probe, site };
        self.decide(&mut g, Some(me), site);
        self.cv.notify_all();
        while g.current != Some(me) && !g.abort {
            g = self.cv.wait(g).unwrap();
        }
        if g.abort {
            drop(g);
            std::panic::resume_unwind(Box::new(AbortToken));
        }
        g.status[me] = St::Running;
    }

    /// A thread asks for a lock it already holds.  For a mutex (or a write request) its probe is false and the
    /// ordinary deadlock detection fires.  For a second READ of an RwLock the probe succeeds here, but the std
    /// RwLock prefers writers: if another thread is waiting for the same lock (it can only be waiting for the write
    /// side, readers are not blocked by a reader), the real second read blocks behind it forever.
    fn check_recursive_read(&self, me: usize, name: &'static str) {
        let mut g = self.inner.lock().unwrap();
        if g.abort {
            return;
        }
        let mut waiting_writer: Option<usize> = None;
        for (t, st) in g.status.iter().enumerate() {
            if t == me {
                continue;
            }
            if let St::Parked { probe: Some(p), site } = st {
                // SAFETY: see `decide`.
                if *site == name && !unsafe { (*p.0)() } {
                    waiting_writer = Some(t);
                }
            }
        }
        if let Some(t) = waiting_writer {
            g.deadlock = Some(format!("T{me} requests {name} for reading while it holds it and T{t} waits for the write side (writer-preferring RwLock: both wait forever)"));
            g.abort = true;
            g.current = None;
            drop(g);
            self.cv.notify_all();
            std::panic::resume_unwind(Box::new(AbortToken));
        }
    }

    fn start(&self, me: usize) {
        let mut g = self.inner.lock().unwrap();
        g.status[me] = St::Parked { probe: None, site: "start" };
        self.cv.notify_all();
        while g.current != Some(me) && !g.abort {
            g = self.cv.wait(g).unwrap();
        }
        if g.abort {
            drop(g);
            std::panic::resume_unwind(Box::new(AbortToken));
        }
        g.status[me] = St::Running;
    }

    fn finish(&self, me: usize) {
        let mut g = self.inner.lock().unwrap();
        g.status[me] = St::Finished;
        if !g.abort {
            self.decide(&mut g, None, "finish");
        }
        self.cv.notify_all();
    }

    fn kick_off(&self, n: usize) {
        let mut g = self.inner.lock().unwrap();
        while g.status.iter().filter(|s| matches!(s, St::Parked { .. })).count() < n {
            g = self.cv.wait(g).unwrap();
        }
        self.decide(&mut g, None, "start");
        self.cv.notify_all();
    }

    fn wait_done(&self) {
        let mut g = self.inner.lock().unwrap();
        while !g.done && !g.abort {
            g = self.cv.wait(g).unwrap();
        }
    }
}

struct ThreadHooks {
    sched: Arc<Sched>,
    tid: usize,
    held: Mutex<Vec<&'static str>>,
}

thread_local! {
    static ATOMIC: std::cell::Cell<bool> = const { std::cell::Cell::new(false) };
}

/// While set, the current controlled thread does not yield at points whose lock is free
/// (used to run a read-only observation as one scheduling block).
pub fn set_atomic(on: bool) {
    ATOMIC.with(|a| a.set(on));
}

/// Blocks the current controlled thread (as "disabled") until `cond()` holds.
pub fn wait_until(name: &'static str, cond: &dyn Fn() -> bool) {
    let was = ATOMIC.with(|a| a.replace(false));
    verif::before_lock(name, cond);
    ATOMIC.with(|a| a.set(was));
}

impl Hooks for ThreadHooks {
    fn sched_point(&self, site: &'static str) {
        if ATOMIC.with(|a| a.get()) {
            return;
        }
        self.sched.yield_point(self.tid, site, None);
    }
    fn before_lock(&self, name: &'static str, probe: &dyn Fn() -> bool) {
        if ATOMIC.with(|a| a.get()) && probe() {
            return;
        }
        if self.held.lock().unwrap().contains(&name) && probe() {
            self.sched.check_recursive_read(self.tid, name);
        }
        // SAFETY: lifetime erasure; see ProbePtr.
        let p: *const (dyn Fn() -> bool + '_) = probe;
        let p: *const (dyn Fn() -> bool + 'static) = unsafe { std::mem::transmute(p) };
        self.sched.yield_point(self.tid, name, Some(ProbePtr(p)));
    }
    fn lock_acquired(&self, name: &'static str) {
        let mut h = self.held.lock().unwrap();
        if !h.is_empty() {
            let mut e = self.sched.lock_edges.lock().unwrap();
            for x in h.iter() {
                if *x != name {
                    e.insert((x, name));
                }
            }
        }
        h.push(name);
    }
    fn lock_released(&self, name: &'static str) {
        let mut h = self.held.lock().unwrap();
        if let Some(i) = h.iter().rposition(|x| *x == name) {
            h.remove(i);
        }
    }
    fn io_step(&self, op: verif::IoOp) -> std::io::Result<()> {
        if self.sched.io_points && !matches!(op, verif::IoOp::PageAlloc { .. } | verif::IoOp::PageFree { .. }) {
            self.sched.yield_point(self.tid, "io", None);
        }
        Ok(())
    }
    fn now_nanos(&self) -> Option<i64> {
        // deterministic and distinct per thread and call
        static CLOCK: std::sync::atomic::AtomicI64 = std::sync::atomic::AtomicI64::new(1_700_000_000_000_000_000);
        Some(CLOCK.fetch_add(1_000_000, std::sync::atomic::Ordering::SeqCst))
    }
    fn hnsw_level(&self) -> Option<usize> {
        Some(0)
    }
}

pub struct Exec {
    pub points: Vec<Point>,
    pub choices: Vec<usize>,
    pub deadlock: Option<String>,
    pub diverged: bool,
    pub horizon_hit: bool,
    /// per thread: Err(panic message) when the body panicked for real
    pub thread_results: Vec<Result<(), String>>,
    pub lock_edges: BTreeSet<(&'static str, &'static str)>,
}

pub type Body = Box<dyn FnOnce() + Send + 'static>;

/// Runs the bodies as controlled threads under the schedule `prefix` (then "first enabled" forever).
pub fn run_schedule(prefix: &[usize], bodies: Vec<Body>, io_points: bool) -> Exec {
    let n = bodies.len();
    let sched = Sched::new(n, prefix, io_points);
    let mut handles = Vec::new();
    for (tid, body) in bodies.into_iter().enumerate() {
        let s = sched.clone();
        handles.push(
            std::thread::Builder::new()
                .stack_size(4 << 20)
                .spawn(move || {
                    let hooks = Arc::new(ThreadHooks { sched: s.clone(), tid, held: Mutex::new(Vec::new()) });
                    verif::install(Some(hooks));
                    let r = std::panic::catch_unwind(std::panic::AssertUnwindSafe(|| {
                        s.start(tid);
                        body();
                    }));
                    verif::install(None);
                    let res = match r {
                        Ok(()) => Ok(()),
                        Err(e) => {
                            if e.downcast_ref::<AbortToken>().is_some() {
                                Err("aborted".to_string())
                            } else if let Some(m) = e.downcast_ref::<&str>() {
                                Err(format!("PANIC: {m}"))
                            } else if let Some(m) = e.downcast_ref::<String>() {
                                Err(format!("PANIC: {m}"))
                            } else {
                                Err("PANIC".to_string())
                            }
                        }
                    };
                    s.finish(tid);
                    res
                })
                .expect("spawn"),
        );
    }
    sched.kick_off(n);
    sched.wait_done();
    let thread_results: Vec<Result<(), String>> = handles.into_iter().map(|h| h.join().unwrap_or_else(|_| Err("join failed".into()))).collect();
    let g = sched.inner.lock().unwrap();
    Exec {
        points: g.points.clone(),
        choices: g.points.iter().map(|p| p.chosen_idx).collect(),
        deadlock: g.deadlock.clone(),
        diverged: g.diverged,
        horizon_hit: g.horizon_hit,
        thread_results,
        lock_edges: sched.lock_edges.lock().unwrap().clone(),
    }
}

pub struct ExploreStats {
    pub schedules: u64,
    pub points: u64,
    pub max_points: usize,
    pub capped: bool,
    pub diverged: u64,
}

/// Preemption-bounded exhaustive exploration.  `make` builds fresh bodies for one execution and
/// returns them together with a checker that is called with the finished execution.
pub fn explore<M, C>(bound: usize, io_points: bool, max_schedules: u64, make: M) -> ExploreStats
where
    M: Fn() -> (Vec<Body>, C) + Sync,
    C: FnOnce(&Exec) + Send,
{
    explore_until(bound, io_points, max_schedules, None, make)
}

/// As `explore`, but additionally stops (reporting `capped`) once `deadline` has passed.
pub fn explore_until<M, C>(bound: usize, io_points: bool, max_schedules: u64, deadline: Option<std::time::Instant>, make: M) -> ExploreStats
where
    M: Fn() -> (Vec<Body>, C) + Sync,
    C: FnOnce(&Exec) + Send,
{
    use std::sync::atomic::{AtomicBool, AtomicU64, AtomicUsize, Ordering};
    let schedules = AtomicU64::new(0);
    let points = AtomicU64::new(0);
    let max_points = AtomicUsize::new(0);
    let capped = AtomicBool::new(false);
    let diverged = AtomicU64::new(0);
    fn go<M, C>(prefix: Vec<usize>, bound: usize, io_points: bool, max: u64, deadline: Option<std::time::Instant>, make: &M, sc: &AtomicU64, pts: &AtomicU64, mp: &AtomicUsize, capped: &AtomicBool, dv: &AtomicU64)
    where
        M: Fn() -> (Vec<Body>, C) + Sync,
        C: FnOnce(&Exec) + Send,
    {
        if sc.load(Ordering::Relaxed) >= max || deadline.is_some_and(|d| std::time::Instant::now() > d) {
            capped.store(true, Ordering::Relaxed);
            return;
        }
        let (bodies, check) = make();
        let x = run_schedule(&prefix, bodies, io_points);
        sc.fetch_add(1, Ordering::Relaxed);
        pts.fetch_add(x.points.len() as u64, Ordering::Relaxed);
        mp.fetch_max(x.points.len(), Ordering::Relaxed);
        if x.diverged {
            dv.fetch_add(1, Ordering::Relaxed);
        }
        check(&x);
        // children: deviate at every later point
        let mut tasks: Vec<Vec<usize>> = Vec::new();
        let mut preemptions = 0usize;
        for (i, p) in x.points.iter().enumerate() {
            if i >= prefix.len() {
                for alt in 1..p.enabled.len() {
                    let cost = preemptions + usize::from(p.running_enabled);
                    if cost > bound {
                        continue;
                    }
                    let mut child: Vec<usize> = x.choices[..i].to_vec();
                    child.push(alt);
                    tasks.push(child);
                }
            }
            if p.chosen_idx != 0 && p.running_enabled {
                preemptions += 1;
            }
        }
        rayon::scope(|s| {
            for t in tasks {
                s.spawn(move |_| go(t, bound, io_points, max, deadline, make, sc, pts, mp, capped, dv));
            }
        });
    }
    go(Vec::new(), bound, io_points, max_schedules, deadline, &make, &schedules, &points, &max_points, &capped, &diverged);
    ExploreStats { schedules: schedules.load(Ordering::Relaxed), points: points.load(Ordering::Relaxed), max_points: max_points.load(Ordering::Relaxed), capped: capped.load(Ordering::Relaxed), diverged: diverged.load(Ordering::Relaxed) }
}

pub fn find_cycle(edges: &BTreeSet<(&'static str, &'static str)>) -> Option<Vec<&'static str>> {
    let mut adj: BTreeMap<&str, Vec<&'static str>> = BTreeMap::new();
    for (a, b) in edges {
        adj.entry(a).or_default().push(b);
    }
    fn dfs(n: &'static str, adj: &BTreeMap<&str, Vec<&'static str>>, stack: &mut Vec<&'static str>, done: &mut BTreeSet<&'static str>) -> Option<Vec<&'static str>> {
        if let Some(i) = stack.iter().position(|x| *x == n) {
            return Some(stack[i..].to_vec());
        }
        if done.contains(n) {
            return None;
        }
        stack.push(n);
        for m in adj.get(n).cloned().unwrap_or_default() {
            if let Some(c) = dfs(m, adj, stack, done) {
                return Some(c);
            }
        }
        stack.pop();
        done.insert(n);
        None
    }
    let nodes: Vec<&'static str> = edges.iter().map(|e| e.0).collect();
    let mut done = BTreeSet::new();
    for n in nodes {
        if let Some(c) = dfs(n, &adj, &mut Vec::new(), &mut done) {
            return Some(c);
        }
    }
    None
}
