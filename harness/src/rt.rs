//! Hook implementations: I/O recorder / fault injector, disk-image builder.
use nervusdb_storage::verif::{self, Hooks, IoOp};
use std::collections::BTreeMap;
use std::io;
use std::path::{Path, PathBuf};
use std::sync::Arc;
use std::sync::Mutex;
use std::sync::atomic::{AtomicI64, AtomicU64, AtomicUsize, Ordering};

#[derive(Clone, Debug)]
pub enum Ev {
    Io(IoOp),
    /// harness markers
    OpBegin(usize),
    /// operation `i` returned; `ok` = it reported success
    OpEnd(usize, bool),
    /// an injected I/O error fired here (the operation it replaced is described)
    Fault(String),
}

pub struct Recorder {
    pub log: Mutex<Vec<Ev>>,
    /// index (among counted I/O steps) at which to inject an error once
    pub fail_at: Mutex<Option<usize>>,
    pub io_count: AtomicUsize,
    pub injected: AtomicUsize,
    pub clock: AtomicI64,
    pub clock_step: AtomicI64,
    pub use_clock: bool,
    pub page_events: Mutex<Vec<String>>,
    pub record: bool,
    /// page-ownership monitor (main page file only): page -> owner tag at allocation
    pub owners: Mutex<BTreeMap<u64, &'static str>>,
    pub foreign_writes: Mutex<Vec<String>>,
    pub monitor_pages: bool,
}

impl Recorder {
    pub fn new() -> Arc<Self> {
        Arc::new(Recorder {
            log: Mutex::new(Vec::new()),
            fail_at: Mutex::new(None),
            io_count: AtomicUsize::new(0),
            injected: AtomicUsize::new(0),
            clock: AtomicI64::new(1_700_000_000_000_000_000),
            clock_step: AtomicI64::new(1000),
            use_clock: true,
            page_events: Mutex::new(Vec::new()),
            record: true,
            owners: Mutex::new(BTreeMap::new()),
            foreign_writes: Mutex::new(Vec::new()),
            monitor_pages: false,
        })
    }
    pub fn mark(&self, ev: Ev) {
        self.log.lock().unwrap().push(ev);
    }
    pub fn take_log(&self) -> Vec<Ev> {
        std::mem::take(&mut *self.log.lock().unwrap())
    }
    pub fn snapshot_log(&self) -> Vec<Ev> {
        self.log.lock().unwrap().clone()
    }
}

fn counted(op: &IoOp) -> bool {
    !matches!(op, IoOp::PageAlloc { .. } | IoOp::PageFree { .. })
}

impl Recorder {
    pub fn new_monitor() -> Arc<Self> {
        let mut r = Arc::try_unwrap(Self::new()).ok().unwrap();
        r.monitor_pages = true;
        r.record = false;
        Arc::new(r)
    }

    fn monitor(&self, op: &IoOp) {
        let is_main = |p: &Path| p.extension().is_some_and(|e| e == "ndb");
        match op {
            IoOp::PageAlloc { path, page, owner } if is_main(path) => {
                self.owners.lock().unwrap().insert(*page, owner);
            }
            IoOp::PageFree { path, page } if is_main(path) => {
                self.owners.lock().unwrap().remove(page);
            }
            IoOp::Write { path, offset, owner, .. } if is_main(path) => {
                let page = offset / 8192;
                if page < 2 {
                    return;
                }
                let owners = self.owners.lock().unwrap();
                match owners.get(&page) {
                    Some(o) if o == owner => {}
                    Some(o) => self.foreign_writes.lock().unwrap().push(format!("page {page} owned by '{o}' written by '{owner}'")),
                    None => self.foreign_writes.lock().unwrap().push(format!("page {page} not allocated (no owner) written by '{owner}'")),
                }
            }
            _ => {}
        }
    }
}

impl Hooks for Recorder {
    fn io_step(&self, op: IoOp) -> io::Result<()> {
        if self.monitor_pages {
            self.monitor(&op);
        }
        if counted(&op) {
            let k = self.io_count.fetch_add(1, Ordering::SeqCst);
            let mut f = self.fail_at.lock().unwrap();
            if *f == Some(k) {
                *f = None;
                self.injected.fetch_add(1, Ordering::SeqCst);
                self.log.lock().unwrap().push(Ev::Fault(describe(&op)));
                return Err(io::Error::new(io::ErrorKind::Other, "injected EIO"));
            }
        }
        if self.record {
            self.log.lock().unwrap().push(Ev::Io(op));
        }
        Ok(())
    }
    fn now_nanos(&self) -> Option<i64> {
        if self.use_clock {
            let step = self.clock_step.load(Ordering::SeqCst);
            Some(self.clock.fetch_add(step, Ordering::SeqCst))
        } else {
            None
        }
    }
    fn hnsw_level(&self) -> Option<usize> {
        Some(0)
    }
}

/// Installs `h` for the current thread for the duration of `f`.
pub fn with_hooks<T>(h: Arc<dyn Hooks>, f: impl FnOnce() -> T) -> T {
    let prev = verif::install(Some(h));
    struct Restore(Option<Arc<dyn Hooks>>);
    impl Drop for Restore {
        fn drop(&mut self) {
            verif::install(self.0.take());
        }
    }
    let _r = Restore(prev);
    f()
}

/// Deterministic clock + HNSW level for checks that do not record I/O.
pub struct DetHooks {
    pub clock: AtomicI64,
    pub step: i64,
    pub level: AtomicU64,
}
impl DetHooks {
    pub fn new() -> Arc<Self> {
        Arc::new(DetHooks { clock: AtomicI64::new(1_700_000_000_000_000_000), step: 1000, level: AtomicU64::new(0) })
    }
}
impl Hooks for DetHooks {
    fn now_nanos(&self) -> Option<i64> {
        Some(self.clock.fetch_add(self.step, Ordering::SeqCst))
    }
    fn hnsw_level(&self) -> Option<usize> {
        Some(self.level.load(Ordering::SeqCst) as usize)
    }
}

// ---------------------------------------------------------------------------------------------
// Disk model
// ---------------------------------------------------------------------------------------------

/// File name (relative to the database directory) -> content.
pub type Image = BTreeMap<String, Vec<u8>>;

fn rel(p: &Path) -> String {
    p.file_name().map(|s| s.to_string_lossy().into_owned()).unwrap_or_default()
}

fn write_at(f: &mut Vec<u8>, off: usize, data: &[u8]) {
    if f.len() < off + data.len() {
        f.resize(off + data.len(), 0);
    }
    f[off..off + data.len()].copy_from_slice(data);
}

/// Applies one operation with ordinary (page-cache) semantics.
pub fn apply_io(img: &mut Image, op: &IoOp) {
    match op {
        IoOp::Create { path } => {
            img.entry(rel(path)).or_default();
        }
        IoOp::Write { path, offset, data, .. } => {
            write_at(img.entry(rel(path)).or_default(), *offset as usize, data);
        }
        IoOp::Append { path, data } => {
            img.entry(rel(path)).or_default().extend_from_slice(data);
        }
        IoOp::SetLen { path, len } => {
            img.entry(rel(path)).or_default().resize(*len as usize, 0);
        }
        IoOp::Sync { .. } => {}
        IoOp::Rename { from, to } => {
            if let Some(c) = img.remove(&rel(from)) {
                img.insert(rel(to), c);
            }
        }
        IoOp::Remove { path } => {
            img.remove(&rel(path));
        }
        IoOp::Copy { from, to } => {
            if let Some(c) = img.get(&rel(from)).cloned() {
                img.insert(rel(to), c);
            }
        }
        IoOp::PageAlloc { .. } | IoOp::PageFree { .. } => {}
    }
}

/// Image after process death at event index `cut` (all earlier effects are in the page cache and persist).
pub fn image_process_death(log: &[Ev], cut: usize) -> Image {
    let mut img = Image::new();
    for ev in &log[..cut] {
        if let Ev::Io(op) = ev {
            apply_io(&mut img, op);
        }
    }
    img
}

/// Pending (unsynced) state of one file at a power cut.
#[derive(Clone, Debug, Default)]
pub struct FileState {
    /// content as of the last fsync of this file; `None` = the file is not durably there
    pub durable: Option<Vec<u8>>,
    /// data operations since then, in order
    pub pending: Vec<IoOp>,
}

#[derive(Clone, Debug, Default)]
pub struct PowerState {
    pub files: BTreeMap<String, FileState>,
    /// renames not yet made durable by a later fsync (journal commit): (from, to, durable content of `from` at rename time)
    pub pending_renames: Vec<(String, String, Option<Vec<u8>>)>,
}

/// Volatile + durable bookkeeping up to `cut`.
/// Model: data reaches the platter only by fsync of that file (or arbitrarily before it, which is
/// what the enumerated patterns explore); a created file is durably present from its first fsync;
/// a rename is atomic and becomes durable with the next fsync of any file (journalled metadata).
pub fn power_state(log: &[Ev], cut: usize) -> PowerState {
    let mut ps = PowerState::default();
    let mut vol = Image::new();
    for ev in &log[..cut] {
        let Ev::Io(op) = ev else { continue };
        match op {
            IoOp::Create { path } => {
                vol.entry(rel(path)).or_default();
                let fs = ps.files.entry(rel(path)).or_default();
                if fs.durable.is_none() {
                    fs.pending.push(op.clone());
                }
            }
            IoOp::Write { path, .. } | IoOp::Append { path, .. } | IoOp::SetLen { path, .. } => {
                apply_io(&mut vol, op);
                ps.files.entry(rel(path)).or_default().pending.push(op.clone());
            }
            IoOp::Sync { path } => {
                let name = rel(path);
                let fs = ps.files.entry(name.clone()).or_default();
                fs.durable = Some(vol.get(&name).cloned().unwrap_or_default());
                fs.pending.clear();
                // journal commit: earlier renames are durable now
                ps.pending_renames.clear();
            }
            IoOp::Rename { from, to } => {
                let (f, t) = (rel(from), rel(to));
                let moved = ps.files.remove(&f).unwrap_or_default();
                let old_to = ps.files.get(&t).cloned().unwrap_or_default();
                if let Some(c) = vol.remove(&f) {
                    vol.insert(t.clone(), c);
                }
                // remember what `to` durably was, in case the rename does not survive
                ps.pending_renames.push((f, t.clone(), old_to.durable.clone()));
                ps.files.insert(t, moved);
            }
            IoOp::Remove { path } => {
                vol.remove(&rel(path));
                ps.files.remove(&rel(path));
            }
            IoOp::Copy { from, to } => {
                if let Some(c) = vol.get(&rel(from)).cloned() {
                    vol.insert(rel(to), c.clone());
                    ps.files.entry(rel(to)).or_default().pending.push(IoOp::Write { path: to.clone(), offset: 0, data: c, owner: "" });
                }
            }
            IoOp::PageAlloc { .. } | IoOp::PageFree { .. } => {}
        }
    }
    ps
}

const SECTOR: usize = 4096;

/// Applies a chosen subset of one file's pending operations to its durable content.
/// `torn`: optional (index, keep_first_half) – that write is split at the 4 KiB boundary.
fn materialize(fs: &FileState, keep: &[bool], torn: Option<(usize, bool)>) -> Option<Vec<u8>> {
    let mut exists = fs.durable.is_some();
    let mut content = fs.durable.clone().unwrap_or_default();
    let mut img = Image::new();
    for (i, op) in fs.pending.iter().enumerate() {
        if !keep[i] {
            continue;
        }
        exists = true;
        match (op, torn) {
            (IoOp::Write { path, offset, data, owner }, Some((ti, first))) if ti == i && data.len() > SECTOR => {
                let (a, b) = data.split_at(SECTOR);
                let part = if first { IoOp::Write { path: path.clone(), offset: *offset, data: a.to_vec(), owner } } else { IoOp::Write { path: path.clone(), offset: *offset + SECTOR as u64, data: b.to_vec(), owner } };
                img.clear();
                img.insert(rel(path), std::mem::take(&mut content));
                apply_io(&mut img, &part);
                content = img.remove(&rel(path)).unwrap();
            }
            (IoOp::Create { .. }, _) => {}
            (op, _) => {
                let name = match op {
                    IoOp::Write { path, .. } | IoOp::Append { path, .. } | IoOp::SetLen { path, .. } => rel(path),
                    _ => continue,
                };
                img.clear();
                img.insert(name.clone(), std::mem::take(&mut content));
                // An append that lands after dropped appends still lands at its own offset in a real
                // file system (holes read as zeros); model that faithfully.
                if let IoOp::Append { data, .. } = op {
                    let off = append_offset(fs, i);
                    write_at(img.get_mut(&name).unwrap(), off, data);
                } else {
                    apply_io(&mut img, op);
                }
                content = img.remove(&name).unwrap();
            }
        }
    }
    if exists { Some(content) } else { None }
}

/// Absolute file offset of pending append `i` (appends always go to the then-current EOF).
fn append_offset(fs: &FileState, i: usize) -> usize {
    let mut len = fs.durable.as_ref().map(|d| d.len()).unwrap_or(0);
    for op in &fs.pending[..i] {
        match op {
            IoOp::Append { data, .. } => len += data.len(),
            IoOp::SetLen { len: l, .. } => len = *l as usize,
            IoOp::Write { offset, data, .. } => len = len.max(*offset as usize + data.len()),
            _ => {}
        }
    }
    len
}

/// All power-loss images at this cut, per the enumerated patterns.  `thorough` adds every subset
/// of a file's pending operations when there are at most `subset_limit` of them.
pub fn power_loss_images(ps: &PowerState, thorough: bool) -> Vec<(String, Image)> {
    let names: Vec<&String> = ps.files.keys().collect();
    // per file: list of (pattern name, content option)
    let mut per_file: Vec<Vec<(String, Option<Vec<u8>>)>> = Vec::new();
    for name in &names {
        let fs = &ps.files[*name];
        let n = fs.pending.len();
        let mut pats: Vec<(String, Vec<bool>, Option<(usize, bool)>)> = Vec::new();
        pats.push(("none".into(), vec![false; n], None));
        if n > 0 {
            pats.push(("all".into(), vec![true; n], None));
            for i in 0..n {
                let mut k = vec![true; n];
                k[i] = false;
                pats.push((format!("all-but-{i}"), k, None));
                let mut k = vec![false; n];
                k[i] = true;
                pats.push((format!("only-{i}"), k, None));
                let mut k = vec![false; n];
                for x in k.iter_mut().take(i) {
                    *x = true;
                }
                pats.push((format!("prefix-{i}"), k.clone(), None));
                if let IoOp::Write { data, .. } = &fs.pending[i] {
                    if data.len() > SECTOR {
                        let mut kk = k.clone();
                        kk[i] = true;
                        pats.push((format!("prefix-{i}+torn-first"), kk.clone(), Some((i, true))));
                        pats.push((format!("prefix-{i}+torn-second"), kk, Some((i, false))));
                    }
                }
            }
            if thorough && n <= 10 {
                for mask in 0..(1u32 << n) {
                    let k: Vec<bool> = (0..n).map(|b| mask & (1 << b) != 0).collect();
                    pats.push((format!("subset-{mask:b}"), k, None));
                }
            }
        }
        let mut seen: Vec<Option<Vec<u8>>> = Vec::new();
        let mut out = Vec::new();
        for (pname, keep, torn) in pats {
            let c = materialize(fs, &keep, torn);
            if !seen.contains(&c) {
                seen.push(c.clone());
                out.push((pname, c));
            }
        }
        per_file.push(out);
    }
    // combine: vary one file at a time while the others are at "all" and at "none"
    let mut images: Vec<(String, Image)> = Vec::new();
    let base_of = |which: &str, fi: usize| -> Option<Vec<u8>> {
        let pats = &per_file[fi];
        pats.iter().find(|p| p.0 == which).or_else(|| pats.first()).and_then(|p| p.1.clone())
    };
    for others in ["all", "none"] {
        for (fi, pats) in per_file.iter().enumerate() {
            for (pname, content) in pats {
                let mut img = Image::new();
                for (fj, name) in names.iter().enumerate() {
                    let c = if fj == fi { content.clone() } else { base_of(others, fj) };
                    if let Some(c) = c {
                        img.insert((*name).clone(), c);
                    }
                }
                images.push((format!("{}:{pname}/others-{others}", names[fi]), img));
            }
        }
    }
    // renames that did not survive: `to` keeps its previous durable content
    if !ps.pending_renames.is_empty() {
        let mut img = Image::new();
        for (fj, name) in names.iter().enumerate() {
            if let Some(c) = base_of("all", fj) {
                img.insert((*name).clone(), c);
            }
        }
        for (from, to, old) in ps.pending_renames.iter().rev() {
            let moved = img.remove(to);
            if let Some(m) = moved {
                img.insert(from.clone(), m);
            }
            if let Some(o) = old {
                img.insert(to.clone(), o.clone());
            }
        }
        images.push(("rename-not-durable".into(), img));
    }
    // de-duplicate identical images
    let mut uniq: Vec<(String, Image)> = Vec::new();
    for (n, i) in images {
        if !uniq.iter().any(|(_, j)| *j == i) {
            uniq.push((n, i));
        }
    }
    uniq
}

pub fn write_image(dir: &Path, img: &Image) {
    let _ = std::fs::remove_dir_all(dir);
    std::fs::create_dir_all(dir).expect("mkdir image");
    for (name, content) in img {
        std::fs::write(dir.join(name), content).expect("write image file");
    }
}

pub fn read_dir_image(dir: &Path) -> Image {
    let mut img = Image::new();
    if let Ok(rd) = std::fs::read_dir(dir) {
        for e in rd.flatten() {
            if e.path().is_file() {
                img.insert(e.file_name().to_string_lossy().into_owned(), std::fs::read(e.path()).unwrap_or_default());
            }
        }
    }
    img
}

pub fn image_hash(img: &Image) -> u64 {
    let mut h: u64 = 0xcbf29ce484222325;
    for (n, c) in img {
        for b in n.bytes().chain(std::iter::once(0)).chain(c.iter().copied()) {
            h ^= b as u64;
            h = h.wrapping_mul(0x100000001b3);
        }
        h ^= c.len() as u64;
        h = h.wrapping_mul(0x100000001b3);
    }
    h
}

pub fn describe(op: &IoOp) -> String {
    match op {
        IoOp::Create { path } => format!("create {}", rel(path)),
        IoOp::Write { path, offset, data, owner } => format!("write {}@{} len={} owner={}", rel(path), offset, data.len(), owner),
        IoOp::Append { path, data } => format!("append {} len={}", rel(path), data.len()),
        IoOp::SetLen { path, len } => format!("set_len {} {}", rel(path), len),
        IoOp::Sync { path } => format!("sync {}", rel(path)),
        IoOp::Rename { from, to } => format!("rename {} -> {}", rel(from), rel(to)),
        IoOp::Remove { path } => format!("remove {}", rel(path)),
        IoOp::Copy { from, to } => format!("copy {} -> {}", rel(from), rel(to)),
        IoOp::PageAlloc { page, owner, .. } => format!("page_alloc {page} owner={owner}"),
        IoOp::PageFree { page, .. } => format!("page_free {page}"),
    }
}

pub fn _unused(_: PathBuf) {}
