//! E-QUERY checks.
use crate::common::*;
use crate::cyref::*;
use crate::qry::*;
use nervusdb::GraphSnapshot;
use nervusdb::query::{Params, PreparedQuery, Value, prepare};
use rayon::prelude::*;
use serde_json::json;
use std::collections::BTreeMap;

pub fn features(q: &Query) -> Vec<String> {
    let mut f: Vec<String> = Vec::new();
    for c in &q.clauses {
        match c {
            Clause::Match { optional, parts, wh } => {
                f.push(if *optional { "OPTIONAL_MATCH".into() } else { "MATCH".into() });
                if parts.len() > 1 {
                    f.push("multi_part".into());
                    let v0: Vec<&str> = parts[0].vars();
                    if !parts[1..].iter().any(|p| p.vars().iter().any(|v| v0.contains(v))) {
                        f.push("disconnected_parts".into());
                    }
                }
                for p in parts {
                    f.push(format!("hops{}", p.steps.len()));
                    if p.start.label.is_some() || p.steps.iter().any(|s| s.1.label.is_some()) {
                        f.push("label".into());
                    }
                    if p.start.prop.is_some() {
                        f.push("prop_map".into());
                    }
                    for (r, _) in &p.steps {
                        f.push(format!("dir{:?}", r.dir));
                        if r.varlen.is_some() {
                            f.push("varlen".into());
                        }
                        if !r.types.is_empty() {
                            f.push(format!("types{}", r.types.len()));
                        }
                    }
                }
                if let Some(w) = wh {
                    f.push("WHERE".into());
                    let t = w.text();
                    for k in ["NOT", " AND ", " OR ", " XOR ", "IS NULL", "IS NOT NULL", " < ", " = ", " <> "] {
                        if t.contains(k) {
                            f.push(format!("op:{}", k.trim()));
                        }
                    }
                }
            }
            Clause::Unwind { .. } => f.push("UNWIND".into()),
            Clause::With { .. } => f.push("WITH".into()),
            Clause::Return { distinct, items, order, skip, limit } => {
                if *distinct {
                    f.push("DISTINCT".into());
                }
                for it in items {
                    match it {
                        Item::CountStar => f.push("count(*)".into()),
                        Item::Agg(n, _, d) => f.push(format!("{n}{}", if *d { "_distinct" } else { "" })),
                        Item::Labels(_) => f.push("labels()".into()),
                        Item::Type(_) => f.push("type()".into()),
                        _ => {}
                    }
                }
                if !order.is_empty() {
                    f.push("ORDER_BY".into());
                    if order.iter().any(|o| o.1) {
                        f.push("DESC".into());
                    }
                }
                if skip.is_some() {
                    f.push("SKIP".into());
                }
                if limit.is_some() {
                    f.push("LIMIT".into());
                }
            }
        }
    }
    f.dedup();
    f
}

fn label_sets_quick() -> Vec<Vec<&'static str>> {
    vec![vec![], vec!["A"], vec!["A", "B"]]
}
fn label_sets_full() -> Vec<Vec<&'static str>> {
    vec![vec![], vec!["A"], vec!["B"], vec!["A", "B"]]
}

// ---------------------------------------------------------------------------------------------
// C11 Cypher read results match reference semantics
// ---------------------------------------------------------------------------------------------

pub fn c11(tier: Tier) -> i32 {
    let rep = Report::new("C11", tier);
    rep.rule("ALL queries of the bounded grammar ([OPTIONAL] MATCH over node / 1-hop / 2-hop / variable-length patterns with labels, types, directions and property maps; WHERE over comparisons, IS [NOT] NULL, label predicates, NOT/AND/OR/XOR; optional second clause UNWIND / OPTIONAL MATCH / WITH..WHERE; RETURN [DISTINCT] of properties, labels(), type(), count(*), count/sum/min/max/collect, ORDER BY [DESC], SKIP, LIMIT) are executed on ALL graphs of the scope (<= 2 nodes with label sets and property values from the stated alphabets, <= 2 relationships over types R,S incl. self-loops, plus hand-picked 3-4 node graphs) and compared with an independent naive reference evaluator: multiset equality, ORDER BY key sequence equality, SKIP/LIMIT as slices; non-trivial = (query, graph) pairs whose reference result is non-empty");
    let full = tier == Tier::Thorough;
    let qs = queries(true);
    let vals_quick = vec![None, Some(CV::Int(1)), Some(CV::Int(2))];
    let vals_full = vec![None, Some(CV::Int(1)), Some(CV::Int(2)), Some(CV::Str("x".into()))];
    let mut graphs = if full { graphs_g2(&label_sets_full(), &vals_full, 2) } else { graphs_g2(&label_sets_quick(), &vals_quick, 1) };
    if !full {
        // a thinned slice of the two-relationship graphs
        let two: Vec<QGraph> = graphs_g2(&[vec![], vec!["A"]], &[None, Some(CV::Int(1))], 2).into_iter().filter(|g| g.rels.len() == 2).collect();
        graphs.extend(two);
    }
    graphs.extend(graphs_rich());
    rep.set("queries", json!(qs.len()));
    rep.set("graphs", json!(graphs.len()));
    // compile once
    let prepared: Vec<Result<PreparedQuery, String>> = qs.iter().map(|q| prepare(&q.text()).map_err(|e| e.to_string())).collect();
    let rejected: Vec<String> = qs.iter().zip(&prepared).filter(|(_, p)| p.is_err()).map(|(q, p)| format!("{} :: {}", q.text(), p.as_ref().err().unwrap())).collect();
    rep.set("queries_rejected_at_compile_time", json!(rejected.len()));
    rep.set("rejected_examples", json!(rejected.iter().take(5).collect::<Vec<_>>()));
    let cap = tier.pick(50.0, 3000.0);
    graphs.par_iter().for_each(|g| {
        if rep.elapsed() > cap {
            rep.not_exhaustive("wall cap hit; remaining graphs skipped");
            return;
        }
        let qdb = QDb::new();
        if let Err(e) = g.build(qdb.db()) {
            rep.violation(Violation { class: "graph_build_failed".into(), kinds: vec![], replay: json!({"graph": g.show()}), detail: e });
            return;
        }
        rep.add_states(1);
        let snap = qdb.db().snapshot();
        let params = Params::new();
        for (q, p) in qs.iter().zip(&prepared) {
            let Ok(p) = p else { continue };
            let reference = match eval_query(g, q) {
                Ok(r) => r,
                Err(_) => continue,
            };
            rep.add_transitions(1);
            rep.add_traces(1);
            if !reference.rows.is_empty() {
                rep.add_nontrivial(1);
            }
            let got = catch(|| -> Result<Vec<CRow>, String> {
                let mut rows = Vec::new();
                for r in p.execute_streaming(&snap, &params) {
                    let r = r.map_err(|e| e.to_string())?;
                    rows.push(r.columns().iter().map(|(_, v)| canon(&snap, v)).collect());
                }
                Ok(rows)
            });
            let mk = |class: String, detail: String| Violation { class, kinds: features(q), replay: json!({"engine":"query","query": q.text(), "graph": g.show()}), detail };
            match got {
                Err(p) => {
                    rep.outcome("panic");
                    rep.violation(mk(format!("panic:{}", p.split(": ").next().unwrap_or("")), p));
                }
                Ok(Err(e)) => {
                    rep.outcome("runtime_error");
                    rep.violation(mk(format!("runtime_error:{}", truncate(&e, 50)), e));
                }
                Ok(Ok(rows)) => match compare(&reference, &rows) {
                    None => rep.outcome("agree"),
                    Some(d) => {
                        rep.outcome("differ");
                        // does the engine implement the variant without uniqueness across pattern parts?
                        CROSS_PART_UNIQUE.with(|c| c.set(false));
                        let alt = eval_query(g, q);
                        CROSS_PART_UNIQUE.with(|c| c.set(true));
                        let class = match alt {
                            Ok(a) if compare(&a, &rows).is_none() => "rows_differ:relationship_uniqueness_across_pattern_parts",
                            _ => "rows_differ",
                        };
                        rep.violation(mk(class.into(), format!("{d}; engine {} reference {}", show_rows(&rows), show_rows(&reference.rows))));
                    }
                },
            }
        }
    });
    rep.sample(json!({"query": qs[qs.len() / 3].text(), "graph": graphs[graphs.len() / 2].show()}));
    rep.sample(json!({"query": qs[qs.len() - 1].text()}));
    rep.assume("spec-ambiguous corners are outside the scope: two relationships with the same (start, type, end), numeric 1 vs 1.0 under DISTINCT, order of labels() (compared as sets), ORDER BY over mixed types (only integer-or-null keys are generated)");
    rep.finish()
}

pub type _Unused = (BTreeMap<u8, u8>, Value);
