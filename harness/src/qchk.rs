//! E-QUERY checks.
use crate::common::*;
use crate::cyref::*;
use crate::qry::*;
use nervusdb::GraphSnapshot;
use nervusdb::query::{Params, PreparedQuery, Value, prepare};
use rayon::prelude::*;
use serde_json::json;
use std::collections::BTreeMap;

pub fn features(q: &Query) -> Vec<String> {
    let mut f: Vec<String> = Vec::new();
    for c in &q.clauses {
        match c {
            Clause::Match { optional, parts, wh } => {
                f.push(if *optional { "OPTIONAL_MATCH".into() } else { "MATCH".into() });
                if parts.len() > 1 {
                    f.push("multi_part".into());
                    let v0: Vec<&str> = parts[0].vars();
                    if !parts[1..].iter().any(|p| p.vars().iter().any(|v| v0.contains(v))) {
                        f.push("disconnected_parts".into());
                    }
                }
                for p in parts {
                    f.push(format!("hops{}", p.steps.len()));
                    if p.start.label.is_some() || p.steps.iter().any(|s| s.1.label.is_some()) {
                        f.push("label".into());
                    }
                    if p.start.prop.is_some() {
                        f.push("prop_map".into());
                    }
                    for (r, _) in &p.steps {
                        f.push(format!("dir{:?}", r.dir));
                        if r.varlen.is_some() {
                            f.push("varlen".into());
                        }
                        if !r.types.is_empty() {
                            f.push(format!("types{}", r.types.len()));
                        }
                    }
                }
                if let Some(w) = wh {
                    f.push("WHERE".into());
                    let t = w.text();
                    for k in ["NOT", " AND ", " OR ", " XOR ", "IS NULL", "IS NOT NULL", " < ", " = ", " <> "] {
                        if t.contains(k) {
                            f.push(format!("op:{}", k.trim()));
                        }
                    }
                }
            }
            Clause::Unwind { .. } => f.push("UNWIND".into()),
            Clause::With { .. } => f.push("WITH".into()),
            Clause::Return { distinct, items, order, skip, limit } => {
                if *distinct {
                    f.push("DISTINCT".into());
                }
                for it in items {
                    match it {
                        Item::CountStar => f.push("count(*)".into()),
                        Item::Agg(n, _, d) => f.push(format!("{n}{}", if *d { "_distinct" } else { "" })),
                        Item::Labels(_) => f.push("labels()".into()),
                        Item::Type(_) => f.push("type()".into()),
                        _ => {}
                    }
                }
                if !order.is_empty() {
                    f.push("ORDER_BY".into());
                    if order.iter().any(|o| o.1) {
                        f.push("DESC".into());
                    }
                }
                if skip.is_some() {
                    f.push("SKIP".into());
                }
                if limit.is_some() {
                    f.push("LIMIT".into());
                }
            }
        }
    }
    f.dedup();
    f
}

fn label_sets_quick() -> Vec<Vec<&'static str>> {
    vec![vec![], vec!["A"], vec!["A", "B"]]
}
fn label_sets_full() -> Vec<Vec<&'static str>> {
    vec![vec![], vec!["A"], vec!["B"], vec!["A", "B"]]
}

// ---------------------------------------------------------------------------------------------
// C11 Cypher read results match reference semantics
// ---------------------------------------------------------------------------------------------

pub fn c11(tier: Tier) -> i32 {
    let rep = Report::new("C11", tier);
    rep.rule("ALL queries of the bounded grammar ([OPTIONAL] MATCH over node / 1-hop / 2-hop / variable-length patterns with labels, types, directions and property maps; WHERE over comparisons, IS [NOT] NULL, label predicates, NOT/AND/OR/XOR; optional second clause UNWIND / OPTIONAL MATCH / WITH..WHERE; RETURN [DISTINCT] of properties, labels(), type(), count(*), count/sum/min/max/collect, ORDER BY [DESC], SKIP, LIMIT) are executed on ALL graphs of the scope (<= 2 nodes with label sets and property values from the stated alphabets, <= 2 relationships over types R,S incl. self-loops, plus hand-picked 3-4 node graphs) and compared with an independent naive reference evaluator: multiset equality, ORDER BY key sequence equality, SKIP/LIMIT as slices; non-trivial = (query, graph) pairs whose reference result is non-empty");
    let full = tier == Tier::Thorough;
    let qs = queries(true);
    let vals_quick = vec![None, Some(CV::Int(1))];
    let vals_full = vec![None, Some(CV::Int(1)), Some(CV::Int(2)), Some(CV::Str("x".into()))];
    let mut graphs = if full { graphs_g2(&label_sets_full(), &vals_full, 2) } else { graphs_g2(&label_sets_quick(), &vals_quick, 1) };
    if !full {
        // a thinned slice of the two-relationship graphs
        let two: Vec<QGraph> = graphs_g2(&[vec![], vec!["A"]], &[None, Some(CV::Int(1))], 2).into_iter().filter(|g| g.rels.len() == 2).step_by(2).collect();
        graphs.extend(two);
    }
    graphs.extend(graphs_rich());
    rep.set("queries", json!(qs.len()));
    rep.set("graphs", json!(graphs.len()));
    // compile once
    let prepared: Vec<Result<PreparedQuery, String>> = qs.iter().map(|q| prepare(&q.text()).map_err(|e| e.to_string())).collect();
    let rejected: Vec<String> = qs.iter().zip(&prepared).filter(|(_, p)| p.is_err()).map(|(q, p)| format!("{} :: {}", q.text(), p.as_ref().err().unwrap())).collect();
    rep.set("queries_rejected_at_compile_time", json!(rejected.len()));
    rep.set("rejected_examples", json!(rejected.iter().take(5).collect::<Vec<_>>()));
    let cap = tier.pick(50.0, 3000.0);
    graphs.par_iter().for_each(|g| {
        if rep.elapsed() > cap {
            rep.not_exhaustive("wall cap hit; remaining graphs skipped");
            return;
        }
        let qdb = QDb::new();
        if let Err(e) = g.build(qdb.db()) {
            rep.violation(Violation { class: "graph_build_failed".into(), kinds: vec![], replay: json!({"graph": g.show()}), detail: e });
            return;
        }
        rep.add_states(1);
        let snap = qdb.db().snapshot();
        let params = Params::new();
        for (q, p) in qs.iter().zip(&prepared) {
            let Ok(p) = p else { continue };
            let reference = match eval_query(g, q) {
                Ok(r) => r,
                Err(_) => continue,
            };
            rep.add_transitions(1);
            rep.add_traces(1);
            if !reference.rows.is_empty() {
                rep.add_nontrivial(1);
            }
            let got = catch(|| -> Result<Vec<CRow>, String> {
                let mut rows = Vec::new();
                for r in p.execute_streaming(&snap, &params) {
                    let r = r.map_err(|e| e.to_string())?;
                    rows.push(r.columns().iter().map(|(_, v)| canon(&snap, v)).collect());
                }
                Ok(rows)
            });
            let mk = |class: String, detail: String| Violation { class, kinds: features(q), replay: json!({"engine":"query","query": q.text(), "graph": g.show()}), detail };
            match got {
                Err(p) => {
                    rep.outcome("panic");
                    rep.violation(mk(format!("panic:{}", p.split(": ").next().unwrap_or("")), p));
                }
                Ok(Err(e)) => {
                    rep.outcome("runtime_error");
                    rep.violation(mk(format!("runtime_error:{}", truncate(&e, 50)), e));
                }
                Ok(Ok(rows)) => match compare(&reference, &rows) {
                    None => rep.outcome("agree"),
                    Some(d) => {
                        rep.outcome("differ");
                        // does the engine implement the variant without uniqueness across pattern parts?
                        CROSS_PART_UNIQUE.with(|c| c.set(false));
                        let alt = eval_query(g, q);
                        CROSS_PART_UNIQUE.with(|c| c.set(true));
                        let class = match alt {
                            Ok(a) if compare(&a, &rows).is_none() => "rows_differ:relationship_uniqueness_across_pattern_parts",
                            _ => "rows_differ",
                        };
                        rep.violation(mk(class.into(), format!("{d}; engine {} reference {}", show_rows(&rows), show_rows(&reference.rows))));
                    }
                },
            }
        }
    });
    rep.sample(json!({"query": qs[qs.len() / 3].text(), "graph": graphs[graphs.len() / 2].show()}));
    rep.sample(json!({"query": qs[qs.len() - 1].text()}));
    rep.assume("spec-ambiguous corners are outside the scope: two relationships with the same (start, type, end), numeric 1 vs 1.0 under DISTINCT, order of labels() (compared as sets), ORDER BY over mixed types (only integer-or-null keys are generated)");
    rep.finish()
}

pub type _Unused = (BTreeMap<u8, u8>, Value);

// ---------------------------------------------------------------------------------------------
// C19 WHERE partitions rows by truth value
// ---------------------------------------------------------------------------------------------

fn c19_atoms(has_b: bool, has_u: bool) -> Vec<String> {
    let mut v: Vec<String> = vec![
        "a.v = 1", "a.v < 2", "a.v IS NULL", "a:A", "a.v IN [1, null]", "a.v IN []", "a.v IN [1, 2]",
        "toString(a.v) STARTS WITH '1'", "toString(a.v) ENDS WITH 'x'", "toString(a.v) CONTAINS 'x'",
        "size(labels(a)) > 1", "coalesce(a.v, 0) = 0", "toInteger(a.v) = 1", "exists((a)-->())", "exists((a)<-[:R]-())",
        "a.uid + 1 > 2", "a.uid * 2 = 2", "a.uid % 2 = 0", "a.v = a.v", "a.v <> 1", "null", "true", "a.v = null",
        "a.uid = 1", "a.uid = 2", "a.uid IN [a.v, 2]", "size([x IN [a.v, 1] WHERE x = 1]) = 1", "CASE WHEN a.v = 1 THEN true WHEN a.v = 2 THEN null ELSE false END",
    ]
    .into_iter()
    .map(String::from)
    .collect();
    if has_b {
        for s in ["b.v = a.v", "a.v <> b.v", "a.v < b.v", "b:A", "b.v IS NOT NULL", "a.uid < b.uid", "coalesce(b.v, a.v) = 1", "b.uid = 2"] {
            v.push(s.to_string());
        }
    }
    if has_u {
        for s in ["u = 1", "u < a.uid", "u IS NULL", "u IN [a.v]"] {
            v.push(s.to_string());
        }
    }
    v
}

pub fn c19(tier: Tier) -> i32 {
    let rep = Report::new("C19", tier);
    rep.rule("base queries Q = {MATCH / OPTIONAL MATCH over node, 1-hop (directed, undirected, typed, variable-length, with inline property maps) and 2-hop patterns, optionally followed by UNWIND [1,2,null]} x predicates p = {atoms over comparisons, IN, STARTS WITH / ENDS WITH / CONTAINS, size, coalesce, toInteger, pattern existence, arithmetic, CASE, null literals; NOT atom; atom AND / OR / XOR atom over a sub-alphabet} on all graphs of the scope; for each (Q, p, graph): rows(Q WHERE p) + rows(Q WHERE NOT (p)) + rows(Q WHERE (p) IS NULL) must equal rows(Q) as multisets, both with the predicate attached to a non-optional MATCH and applied after WITH; non-trivial = triples where Q has rows and at least two of the three parts are non-empty");
    let full = tier == Tier::Thorough;
    let prefixes: Vec<(&str, bool, bool, &str)> = vec![
        // (text, has_b, has_u, returned scalars)
        ("MATCH (a)", false, false, "a.uid AS c0"),
        ("MATCH (a)-[r]->(b)", true, false, "a.uid AS c0, b.uid AS c1, type(r) AS c2"),
        ("MATCH (a)-[r]-(b)", true, false, "a.uid AS c0, b.uid AS c1, type(r) AS c2"),
        ("MATCH (a)<-[:R]-(b)", true, false, "a.uid AS c0, b.uid AS c1"),
        ("MATCH (a)-[*1..2]->(b)", true, false, "a.uid AS c0, b.uid AS c1"),
        ("MATCH (a) OPTIONAL MATCH (a)-[:R]->(b)", true, false, "a.uid AS c0, b.uid AS c1"),
        ("MATCH (a) UNWIND [1, 2, null] AS u", false, true, "a.uid AS c0, u AS c1"),
        ("MATCH (a)-[r]->(b)-[s]->(c)", true, false, "a.uid AS c0, b.uid AS c1, c.uid AS c2"),
        ("OPTIONAL MATCH (a:A)-[r:S]->(b)", true, false, "a.uid AS c0, b.uid AS c1"),
        // inline property maps next to a WHERE on another key of the same variable
        ("MATCH (a {v: 1})", false, false, "a.uid AS c0"),
        ("MATCH (a {v: 1})-[r]->(b {v: 2})", true, false, "a.uid AS c0, b.uid AS c1, type(r) AS c2"),
        ("MATCH (a)-[r:R]->(b {v: 1})", true, false, "a.uid AS c0, b.uid AS c1"),
    ];
    let vals = vec![None, Some(CV::Int(1)), Some(CV::Int(2)), Some(CV::Str("x".into()))];
    let mut graphs = if full { graphs_g2(&label_sets_full(), &vals, 2) } else { graphs_g2(&label_sets_quick(), &vals[..3].to_vec(), 1) };
    if !full {
        graphs.extend(graphs_g2(&[vec![], vec!["A"]], &[None, Some(CV::Str("x".into()))], 2).into_iter().filter(|g| g.rels.len() == 2));
    }
    graphs.extend(graphs_rich());
    // build the query families
    struct Fam {
        base: String,
        parts: [String; 3],
        pred: String,
        prefix: String,
        where_style: &'static str,
    }
    let mut fams: Vec<Fam> = Vec::new();
    for (prefix, has_b, has_u, ret) in &prefixes {
        let atoms = c19_atoms(*has_b, *has_u);
        let mut preds: Vec<String> = atoms.clone();
        for a in &atoms {
            preds.push(format!("NOT ({a})"));
        }
        let sub: Vec<&String> = atoms.iter().take(if full { 14 } else { 8 }).chain(atoms.iter().skip(atoms.len().saturating_sub(4))).collect();
        for a in &sub {
            for b in &sub {
                for op in ["AND", "OR", "XOR"] {
                    preds.push(format!("({a}) {op} ({b})"));
                }
            }
        }
        let single_match = !prefix.contains("OPTIONAL") && !prefix.contains("UNWIND");
        for p in preds {
            // style 1: filter after WITH *
            fams.push(Fam {
                base: format!("{prefix} RETURN {ret}"),
                parts: [format!("{prefix} WITH * WHERE {p} RETURN {ret}"), format!("{prefix} WITH * WHERE NOT ({p}) RETURN {ret}"), format!("{prefix} WITH * WHERE ({p}) IS NULL RETURN {ret}")],
                pred: p.clone(),
                prefix: prefix.to_string(),
                where_style: "WITH",
            });
            if single_match {
                fams.push(Fam {
                    base: format!("{prefix} RETURN {ret}"),
                    parts: [format!("{prefix} WHERE {p} RETURN {ret}"), format!("{prefix} WHERE NOT ({p}) RETURN {ret}"), format!("{prefix} WHERE ({p}) IS NULL RETURN {ret}")],
                    pred: p,
                    prefix: prefix.to_string(),
                    where_style: "MATCH",
                });
            }
        }
    }
    rep.set("query_families", json!(fams.len()));
    rep.set("graphs", json!(graphs.len()));
    let prep = |q: &str| prepare(q).map_err(|e| e.to_string());
    let prepared: Vec<(Result<PreparedQuery, String>, [Result<PreparedQuery, String>; 3])> = fams.par_iter().map(|f| (prep(&f.base), [prep(&f.parts[0]), prep(&f.parts[1]), prep(&f.parts[2])])).collect();
    let rejected = prepared.iter().filter(|p| p.0.is_err() || p.1.iter().any(|x| x.is_err())).count();
    rep.set("families_rejected_at_compile_time", json!(rejected));
    let cap = tier.pick(50.0, 3000.0);
    graphs.par_iter().for_each(|g| {
        if rep.elapsed() > cap {
            rep.not_exhaustive("wall cap hit; remaining graphs skipped");
            return;
        }
        let qdb = QDb::new();
        if g.build(qdb.db()).is_err() {
            return;
        }
        rep.add_states(1);
        let snap = qdb.db().snapshot();
        let params = Params::new();
        let run = |p: &PreparedQuery| -> Result<Vec<CRow>, String> {
            catch(|| -> Result<Vec<CRow>, String> {
                let mut rows = Vec::new();
                for r in p.execute_streaming(&snap, &params) {
                    let r = r.map_err(|e| e.to_string())?;
                    rows.push(r.columns().iter().map(|(_, v)| canon(&snap, v)).collect());
                }
                Ok(rows)
            })
            .unwrap_or_else(|p| Err(p))
        };
        let mut base_cache: BTreeMap<&str, Result<Vec<CRow>, String>> = BTreeMap::new();
        for (f, (pb, pp)) in fams.iter().zip(&prepared) {
            let (Ok(pb), [Ok(p0), Ok(p1), Ok(p2)]) = (pb, pp) else { continue };
            let base = base_cache.entry(f.base.as_str()).or_insert_with(|| run(pb)).clone();
            let Ok(base) = base else { continue };
            rep.add_transitions(3);
            rep.add_traces(3);
            let parts = [run(p0), run(p1), run(p2)];
            let mk = |class: &str, detail: String| {
                let mut kinds_v = vec![f.where_style.to_string(), f.prefix.clone()];
                for k in [" IN ", "STARTS WITH", "ENDS WITH", "CONTAINS", "size(", "coalesce", "toInteger", "exists(", "CASE", " XOR ", " OR ", " AND ", "NOT ", "IS NULL", " % ", "null"] {
                    if f.pred.contains(k) {
                        kinds_v.push(format!("pred:{}", k.trim()));
                    }
                }
                Violation { class: class.to_string(), kinds: kinds_v, replay: json!({"engine":"query","base": f.base, "predicate": f.pred, "style": f.where_style, "graph": g.show()}), detail }
            };
            if parts.iter().any(|p| p.is_err()) {
                if parts.iter().all(|p| p.is_err()) {
                    rep.outcome("predicate_raises_in_all_parts");
                } else {
                    rep.outcome("predicate_raises_in_some_parts");
                    rep.violation(mk("error_in_some_parts_only", format!("{:?}", parts.iter().map(|p| p.as_ref().map(|r| r.len()).map_err(|e| truncate(e, 60))).collect::<Vec<_>>())));
                }
                continue;
            }
            let mut union: Vec<CRow> = Vec::new();
            let mut nonempty = 0;
            for p in &parts {
                let r = p.as_ref().unwrap();
                if !r.is_empty() {
                    nonempty += 1;
                }
                union.extend(r.iter().cloned());
            }
            if nonempty >= 2 {
                rep.add_nontrivial(1);
            }
            if same_multiset(&union, &base) {
                rep.outcome("partition");
            } else {
                let class = if union.len() < base.len() { "rows_lost" } else if union.len() > base.len() { "rows_duplicated" } else { "rows_changed" };
                rep.outcome(class);
                rep.violation(mk(class, format!("true {} + false {} + null {} vs all {}", show_rows(parts[0].as_ref().unwrap()), show_rows(parts[1].as_ref().unwrap()), show_rows(parts[2].as_ref().unwrap()), show_rows(&base))));
            }
        }
    });
    rep.sample(json!({"base": fams[fams.len() / 2].base, "predicate": fams[fams.len() / 2].pred, "graph": graphs[graphs.len() / 2].show()}));
    rep.finish()
}

// ---------------------------------------------------------------------------------------------
// C15 Indexes never change query results (differential over histories x index position)
// ---------------------------------------------------------------------------------------------

pub fn c15(tier: Tier) -> i32 {
    use crate::seq::run_history;
    use crate::sut::{Op, Val};
    let rep = Report::new("C15", tier);
    rep.rule("all enabled histories up to the stated depth over {create node 1 with labels A / B / A+B and k in {1, 1.0, 'a', absent}; create node 2 (label A, k = 1 or absent); set k to 1 / 2 / 1.0; remove k; add label A / B; remove label A; delete node 1; Compact; drop+reopen}; for every position i in 0..=len the same history with CreateIndex(A,k) inserted at i; oracle: for every probe query {MATCH (n:A {k: c}), MATCH (n:A) WHERE n.k = c, the same with label B, with a following hop, and with IN} and every c in {1, 2, 1.0, 'a', true, null} the rows equal the rows of the history without any index; plus a volume family: for every initial size m in the stated range, CREATE INDEX, m nodes with distinct integer values, 70 updates of existing nodes (new smallest / largest keys, so that the index root splits during an UPDATE for some m), a second node for every stored value, then an equality lookup for EVERY stored value against the uid -> value map kept by the harness; non-trivial = (history, position) pairs in which the index exists while a node with label A and property k exists");
    let k1 = |v: Val| Op::SetNodeProp { e: 1, k: "k", v };
    let mk_node = |e: u64, labels: Vec<&'static str>, k: Option<Val>| {
        let mut ops = vec![Op::CreateNode { e, labels }, Op::SetNodeProp { e, k: "uid", v: Val::I(e as i64) }];
        if let Some(v) = k {
            ops.push(Op::SetNodeProp { e, k: "k", v });
        }
        Op::Tx(ops)
    };
    let mut alphabet: Vec<Op> = Vec::new();
    for labels in [vec!["A"], vec!["B"], vec!["A", "B"]] {
        for k in [Some(Val::I(1)), Some(Val::F(1.0)), Some(Val::S("a")), None] {
            alphabet.push(mk_node(1, labels.clone(), k));
        }
    }
    alphabet.push(mk_node(2, vec!["A"], Some(Val::I(1))));
    alphabet.push(mk_node(2, vec!["A"], None));
    alphabet.push(k1(Val::I(1)));
    alphabet.push(k1(Val::I(2)));
    alphabet.push(k1(Val::F(1.0)));
    alphabet.push(Op::RemoveNodeProp { e: 1, k: "k" });
    alphabet.push(Op::AddLabel { e: 1, l: "A" });
    alphabet.push(Op::AddLabel { e: 1, l: "B" });
    alphabet.push(Op::RemoveLabel { e: 1, l: "A" });
    alphabet.push(Op::DeleteNode { e: 1 });
    alphabet.push(Op::Tx(vec![Op::CreateEdge { s: 1, t: "R", d: 2 }]));
    alphabet.push(Op::Compact);
    alphabet.push(Op::DropOpen);
    let probes: Vec<String> = {
        let mut v = Vec::new();
        for c in ["1", "2", "1.0", "'a'", "true", "null"] {
            for l in ["A", "B"] {
                v.push(format!("MATCH (n:{l} {{k: {c}}}) RETURN n.uid AS u"));
                v.push(format!("MATCH (n:{l}) WHERE n.k = {c} RETURN n.uid AS u"));
            }
            v.push(format!("MATCH (n:A {{k: {c}}})-[:R]->(m) RETURN n.uid AS u, m.uid AS w"));
            v.push(format!("MATCH (n:A) WHERE n.k IN [{c}, 7] RETURN n.uid AS u"));
        }
        v.push("MATCH (n:A) WHERE n.k > 0 RETURN n.uid AS u".into());
        v
    };
    let prepared: Vec<PreparedQuery> = probes.iter().map(|q| prepare(q).expect("probe compiles")).collect();
    let observe = |h: &[Op]| -> Result<Vec<Vec<CRow>>, String> {
        let r = run_history(h);
        if let Some((i, e)) = r.failed_at {
            return Err(format!("step {i}: {e}"));
        }
        let sut = r.sut.as_ref().unwrap();
        let snap = sut.db().snapshot();
        let params = Params::new();
        let mut out = Vec::new();
        for p in &prepared {
            let rows = catch(|| -> Result<Vec<CRow>, String> {
                let mut rows = Vec::new();
                for row in p.execute_streaming(&snap, &params) {
                    let row = row.map_err(|e| e.to_string())?;
                    rows.push(row.columns().iter().map(|(_, v)| canon(&snap, v)).collect());
                }
                rows.sort();
                Ok(rows)
            })
            .unwrap_or_else(|p| Err(p))?;
            out.push(rows);
        }
        Ok(out)
    };
    let ex = crate::seq::Explorer { rep: &rep, alphabet, node_ids: vec![1, 2], max_depth: tier.pick(3, 4), wall_cap_s: tier.pick(50.0, 3000.0), prune_violating: true };
    ex.run(&|h: &[Op]| {
        let mut out = crate::seq::Outcome { violations: vec![], runs: 1, steps: h.len() as u64, label: String::new(), nontrivial: false };
        let base = match observe(h) {
            Ok(b) => b,
            Err(_) => {
                out.label = "base_failed".into();
                return out;
            }
        };
        let mut labels = std::collections::BTreeSet::new();
        for i in 0..=h.len() {
            let mut hi = h.to_vec();
            hi.insert(i, Op::CreateIndex { l: "A", k: "k" });
            out.runs += 1;
            out.steps += hi.len() as u64;
            out.nontrivial = true;
            match observe(&hi) {
                Err(e) => {
                    let class = format!("history_fails_with_index:{}", truncate(&e, 50));
                    labels.insert(class.clone());
                    out.violations.push(Violation { class, kinds: crate::sut::kinds(&hi), replay: json!({"engine":"seq+query","history": crate::sut::show_history(&hi)}), detail: e });
                }
                Ok(with) => {
                    let mut bad = None;
                    for (qi, (a, b)) in base.iter().zip(&with).enumerate() {
                        if a != b {
                            bad = Some((qi, a.clone(), b.clone()));
                            break;
                        }
                    }
                    match bad {
                        None => {
                            labels.insert("same".to_string());
                        }
                        Some((qi, a, b)) => {
                            let class = if b.len() < a.len() { "index_hides_rows" } else if b.len() > a.len() { "index_adds_rows" } else { "index_changes_rows" };
                            labels.insert(class.to_string());
                            let mut kinds_v = crate::sut::kinds(&hi);
                            kinds_v.push(format!("index_at_{}", if i == 0 { "start" } else if i == h.len() { "end" } else { "middle" }));
                            // causal markers (what the history contains that the index code is known not to handle)
                            let flat: Vec<&Op> = hi.iter().flat_map(|o| match o { Op::Tx(v) => v.iter().collect::<Vec<_>>(), other => vec![other] }).collect();
                            let idx_pos = flat.iter().position(|o| matches!(o, Op::CreateIndex { .. })).unwrap_or(0);
                            if flat[..idx_pos].iter().any(|o| matches!(o, Op::SetNodeProp { k: "k", .. })) {
                                kinds_v.push("cause:value_written_before_index_creation".into());
                            }
                            if flat.iter().any(|o| matches!(o, Op::SetNodeProp { k: "k", v: Val::F(_), .. })) {
                                kinds_v.push("cause:float_value".into());
                            }
                            if flat.iter().any(|o| matches!(o, Op::AddLabel { .. } | Op::RemoveLabel { .. }) || matches!(o, Op::CreateNode { labels, .. } if labels.len() > 1 || labels.first() != Some(&"A")) ) {
                                kinds_v.push("cause:label_not_primary_or_changed".into());
                            }
                            if flat.iter().any(|o| matches!(o, Op::DeleteNode { .. })) {
                                kinds_v.push("cause:node_deleted".into());
                            }
                            out.violations.push(Violation { class: class.to_string(), kinds: kinds_v, replay: json!({"engine":"seq+query","history": crate::sut::show_history(&hi), "query": probes[qi]}), detail: format!("{}: without index {} with index {}", probes[qi], show_rows(&a), show_rows(&b)) });
                        }
                    }
                }
            }
        }
        out.label = labels.into_iter().collect::<Vec<_>>().join("|");
        out
    });
    rep.set("probe_queries", json!(probes.len()));
    // volume family: the index B-tree grows past one page while existing nodes are UPDATED (root split during an
    // update), then every value gets a second node; every equality lookup must return exactly the nodes that hold the value
    {
        let sizes: Vec<i64> = if tier == Tier::Thorough { (280..=360).step_by(2).collect() } else { (300..=345).step_by(5).collect() };
        let results: Vec<(i64, Option<(String, String)>, u64)> = sizes
            .par_iter()
            .map(|&m| {
                let db = QDb::new();
                let p = Params::new();
                let mut truth: BTreeMap<i64, i64> = BTreeMap::new(); // uid -> k
                let run = || -> Result<(), String> {
                    db.db().create_index("A", "k").map_err(|e| e.to_string())?;
                    db.write(&format!("UNWIND range(0, {}) AS i CREATE (:A {{uid: i, k: i}})", m - 1), &p).map_err(|e| format!("{e:?}"))?;
                    Ok(())
                };
                if let Err(e) = run() {
                    return (m, Some(("volume:setup_failed".to_string(), e)), 0);
                }
                for i in 0..m {
                    truth.insert(i, i);
                }
                // 70 updates of existing nodes: new keys 100000 + j (right end of the key space) and j - 100000 (left end)
                for j in 0..70i64 {
                    let newk = if j % 2 == 0 { 100_000 + j } else { j - 100_000 };
                    if let Err(e) = db.write(&format!("MATCH (n:A {{uid: {j}}}) SET n.k = {newk}"), &p) {
                        return (m, Some(("volume:update_failed".to_string(), format!("{e:?}"))), 0);
                    }
                    truth.insert(j, newk);
                }
                // a second node for every value that is stored now
                let values: Vec<i64> = truth.values().copied().collect();
                let list = values.iter().map(|v| v.to_string()).collect::<Vec<_>>().join(", ");
                if let Err(e) = db.write(&format!("UNWIND [{list}] AS v CREATE (:A {{uid: 1000000 + v, k: v}})"), &p) {
                    return (m, Some(("volume:duplicate_failed".to_string(), format!("{e:?}"))), 0);
                }
                for v in &values {
                    truth.insert(1_000_000 + v, *v);
                }
                let mut lookups = 0u64;
                for v in values.iter().chain([7_777_777i64].iter()) {
                    lookups += 1;
                    let q = format!("MATCH (n:A {{k: {v}}}) RETURN n.uid AS u");
                    match db.read(&q, &p) {
                        Ok((_, rows)) => {
                            let mut got: Vec<i64> = rows.iter().filter_map(|r| if let CV::Int(u) = r[0] { Some(u) } else { None }).collect();
                            got.sort();
                            let mut want: Vec<i64> = truth.iter().filter(|(_, k)| *k == v).map(|(u, _)| *u).collect();
                            want.sort();
                            if got != want {
                                let class = if got.len() < want.len() { "index_hides_rows" } else { "index_adds_rows" };
                                return (m, Some((class.to_string(), format!("{q}: got uids {got:?}, the nodes holding the value are {want:?} (index grown to {} entries, 70 of them written by SET)", m + 70))), lookups);
                            }
                        }
                        Err(e) => return (m, Some(("volume:lookup_failed".to_string(), format!("{q}: {e:?}"))), lookups),
                    }
                }
                (m, None, lookups)
            })
            .collect();
        let mut total = 0u64;
        for (m, v, lookups) in results {
            total += lookups;
            rep.add_states(1);
            rep.add_traces(1);
            rep.add_transitions(lookups + 72);
            rep.add_nontrivial(1);
            match v {
                None => rep.outcome("volume:same"),
                Some((class, detail)) => {
                    rep.outcome(&class);
                    rep.violation(Violation { class, kinds: vec!["volume_family".to_string(), format!("initial_nodes={m}"), "cause:index_root_split_during_update".to_string()], replay: json!({"engine":"query","family":"volume","initial_nodes": m}), detail });
                }
            }
        }
        rep.set("volume_family", json!({"sizes": sizes, "lookups": total}));
    }
    rep.finish()
}

