#!/usr/bin/env python3
"""Generates /verif/MANIFEST.json from the table below (single source of truth)."""
import json, subprocess
props = [json.loads(l) for l in open('/verif/properties.jsonl')]

SEQ = "explicit-state search: exhaustive breadth-first enumeration of operation sequences on the real engine"
CRASH = "exhaustive crash-point / power-loss image enumeration over a recorded I/O history of the real engine"
FAULT = "exhaustive single-fault injection at every I/O step of the real engine"
TAIL = "exhaustive log-tail mutation enumeration over recorded crash images"

# id -> (engine, technique, level text, level_note, design_ref)
CHECKS = {
 "C04": ("E-SEQ", SEQ, "All enabled histories over the storage alphabet (writes incl. multi-label creates, label add/remove, delete+re-create in one transaction, 513-node batches; Compact, CreateIndex, CloseOpen, DropOpen) up to the depth bound are executed on the real engine; after each history the full dump (all read interfaces, internal ids, multiplicities) is taken, the database is dropped+reopened (1st execution) and closed+reopened (2nd execution) and dumped again; dumps must be equal.", "bounded depth and alphabet (listed in the evidence); node-creation symmetry reduction; histories whose non-reopen step fails are skipped (they belong to other properties)", "3/C04"),
 "C18": ("E-SEQ+monitor", SEQ + " with a page-ownership monitor on every page write", "All enabled histories over node batches of 1/511/512/513/1025 nodes interleaved with property, relationship, vector and index writes, compaction and reopen are executed with a monitor that checks on every page write that the page was allocated to the writing structure; the dump must equal the model, survive reopen, and vacuum's reachability walk must succeed.", "ownership is tracked by structure kind (idmap, btree, blob, csr, catalog)", "3/C18"),
 "C28": ("E-SEQ", SEQ, "All enabled histories (writes, vectors, Compact, CreateIndex, CloseOpen) up to the depth bound; then close, vacuum, open: vacuum must succeed, the dump incl. index lookups and vector search must be unchanged, and a further transaction must commit and survive another reopen.", "differential oracle (same engine before/after vacuum)", "3/C28"),
 "C01": ("E-CRASH", CRASH, "Every history of the crash alphabet up to the bound is run once on the real engine under an I/O recorder; every event index is a crash point; process-death and all enumerated power-loss images are recovered by the real Db::open and the acknowledged counter must survive, also through one continuation commit, a crash at each of its I/O steps and two more reopens. Exhaustive within the stated bounds; the recorded log is validated by replaying it onto empty files and comparing with the real files byte for byte.", "disk model of rt.rs (atomic ordered writes for process death; fsync-only durability with enumerated subsets, 4 KiB sectors, journalled renames for power loss); bounded histories; HashMap iteration order inside one WAL transaction is not controlled", "3/C01"),
 "C02": ("E-CRASH", CRASH, "Same enumeration as C01 with the prefix oracle: the state recovered from every crash image must equal the clean state after some prefix of the operations started so far (full dump through every read interface), and recovery must succeed.", "as C01; reference states are produced by the same engine without crashes (differential)", "3/C02"),
 "C08": ("E-CRASH(fault)", FAULT, "For every history and every counted I/O step k a one-shot EIO is injected at k; the faulted operation must be all-or-nothing live and after reopen, and a later transaction must commit and survive.", "single fault per execution; the seam returns the error instead of performing the effect", "3/C08"),
 "C17": ("E-CRASH(tail)", TAIL, "For every recorded crash image whose cut touches the log, every truncation, every garbage tail of a fixed set and every bit flip behind the last complete transaction is opened with the real code; recovery must equal the clean cut and later commits must survive two reopens.", "tail set is finite and listed in the evidence; tails with a valid checksum over an undecodable body are excluded", "3/C17"),
}


SCHED = "stateless model checking: exhaustive preemption-bounded schedule enumeration of real threads under a cooperative scheduler"
COMP = "exhaustive enumeration of inputs / operation sequences on the real component"
QEXPR = "exhaustive enumeration of small value tuples / lists substituted into query templates executed by the real engine"
QUPD = "exhaustive enumeration of update-statement sequences over all initial graphs of a bounded scope, real engine vs reference update semantics"
CHECKS.update({
 "C12": ("E-QUERY", QUPD, "All enabled sequences up to the bound over 27 update statements on all initial graphs of the scope; after every statement the graph read back through Cypher must equal the reference model; change counts must agree between execute_mixed, execute_write and the C API and must not be zero for a statement that changed the graph.", "reference update semantics in qupd.rs; parallel same-type relationships are outside the scope", "3/C12"),
 "C13": ("E-QUERY", QUPD, "11 failing statements x all initial graphs x 6 execution modes (Rust and C API auto-commit; explicit C API transaction alone / after / before / between successful statements): the final graph must equal the script without the failing statement.", "labels interned by a failing statement are not observable and not judged", "3/C13"),
 "C14": ("E-QUERY", QUPD, "All sequences up to the bound over 12 create / delete statements (incl. create-then-delete inside one statement) on all two-node initial graphs, auto-commit and pairs inside one explicit transaction; after every commit no traversal (outgoing, incoming, undirected, storage iterators) returns a relationship with a missing endpoint and DELETE of a connected node is refused.", "", "3/C14"),
 "C19": ("E-QUERY", "exhaustive enumeration of (base query, predicate, graph) triples; metamorphic partition law on the real engine", "For every base query, predicate and graph of the scope: rows(WHERE p) + rows(WHERE NOT p) + rows(WHERE p IS NULL) = rows() as multisets, with the predicate on the MATCH and after WITH.", "reference-free (metamorphic)", "3/C19"),
 "C24": ("E-QUERY", QUPD, "All sequences up to the bound of dependent statements inside one explicit C API transaction, on an empty and on a pre-populated database, compared with the same statements as separate auto-commit statements.", "recorded known finding: statements do not see the transaction's own writes", "3/C24"),
 "C20": ("E-QUERY", QEXPR, "All lists up to the bound over a 33-value alphabet through UNWIND .. ORDER BY [DESC] [SKIP] [LIMIT]: permutation, adjacent-pair order against a reference comparator (only where Cypher's order is uncontroversial), independence of the input permutation, slices; plus a two-key family.", "cross-type order and date-like strings are judged only by permutation invariance", "3/C20"),
 "C21": ("E-QUERY", QEXPR, "All lists up to the bound over numeric boundary values (and mixed-type lists for count/collect), with all grouping-key lists of the same length: count(*), count, sum, avg, min, max, collect, DISTINCT variants against a direct fold with exact arithmetic.", "sum may be an exact Int, an error, or a Float close to the exact value - never a wrapped Int", "3/C21"),
 "C22": ("E-QUERY", QEXPR, "Failing expressions x failing-row position x 22 result operators (RETURN, DISTINCT, UNION [ALL] either arm, ORDER BY, WITH, aggregates, CALL {}, SKIP, LIMIT, comprehension, CASE and nestings); a control run with good rows must succeed, the run with one bad row must report an error.", "early-terminating operators are only used with the failing row inside the consumed prefix", "3/C22"),
 "C23": ("E-QUERY", QEXPR, "All pairs (and all triples for transitivity) over a 33-value alphabet substituted into expression templates: truth tables, De Morgan, null propagation, equality laws, numeric comparisons against exact rational comparison, integer overflow rule of + - * unary minus abs.", "pow and division are checked for null propagation only", "3/C23"),
 "C07": ("E-SEQ", SEQ, "All enabled base histories up to the depth bound; for every position and every write body enabled there (incl. vector insertions, new labels / relationship types, index-relevant property changes) the history with that body in a transaction that is dropped must give the same dump, the same vector-search answers and the same dump after reopen as the history without it.", "abandonment = dropping the storage WriteTxn (what ndb_txn_rollback does); statement-level abandonment is C13", "3/C07"),
 "C31": ("E-COMP", COMP, "NERVUSDB_HNSW_M=2; all sequences up to the bound over set_vector (3 nodes x 4 vectors x every HNSW level choice 0..2), delete node, reopen; after every step every query of a grid x k in {1,2,5}: at most k distinct live hits with exact distances to the latest vector, sorted, and exactly the k nearest while at most 5 vectors are stored.", "the HNSW level draw is replaced by an enumerated choice through the hooks", "3/C31"),
 "C05": ("E-SEQ", SEQ, "All enabled write histories up to the depth bound; for every insertion position (and every pair of positions) the history with Compact / Checkpoint inserted must end in the same full dump as the history without; plus an overwrite-and-compact family of N rounds on a 2000-byte key.", "differential oracle (same engine with and without the maintenance operation)", "3/C05"),
 "C06": ("E-SEQ", SEQ, "All enabled write-only histories (single operations and two-operation transactions incl. delete+re-create and label toggles) up to the depth bound; after the last commit the dump through every read interface must equal the reference GraphModel.", "GraphModel semantics: relationship identity is (start, type, end) with multiplicity; DETACH delete", "3/C06"),
 "C11": ("E-QUERY", "exhaustive enumeration of a bounded query grammar over all graphs of a bounded scope, compared with an independent reference evaluator", "Every query of the bounded grammar is executed on every graph of the scope and compared with CypherRef (multiset equality, ORDER BY key sequence, SKIP/LIMIT slices).", "reference evaluator cyref.rs is trusted; spec-ambiguous corners excluded (listed in the evidence)", "3/C11"),
 "C26": ("E-COMP", COMP, "All enabled sequences up to the bound over insert / delete-newest / delete-oldest / delete-absent / reopen on 4 keys (2 of 2000 bytes: 4 cells per leaf) plus all pure-insert sequences over the long keys up to a longer bound; after every step full scan and per-key lookup are compared with a reference multimap.", "bounded key alphabet; payloads are fresh integers", "3/C26"),
 "C03": ("E-SCHED", SCHED, "A writer thread (commits, compaction, index creation) and a reader thread that takes a snapshot at an arbitrary scheduling point run on the real engine; every schedule with at most the stated number of preemptions is executed (points: every lock acquisition and publication step); the snapshot's dump must equal a sequential state between 'operations completed before' and 'operations started before' and must not change in two later dumps.", "sequentially consistent atomics; each dump of an existing snapshot is one scheduling block; page-level MVCC defects are recorded as known findings", "3/C03"),
 "C09": ("E-SCHED", SCHED, "2-3 threads issue read-modify-write statements through ndb_execute_write on one shared node; every schedule with at most the stated number of preemptions is executed; the final state must be the result of some serial order of the successful statements.", "sequentially consistent atomics; scheduling points = instrumented lock acquisitions / publication steps", "3/C09"),
 "C10": ("E-SEQ(handles)", SEQ, "All sequences up to the bound over open/commit/compact/close/drop on two handles, both in-process and with the second handle in a separate process (incl. kill -9); a second open must be refused while a handle is open, must succeed when none is, and exactly the accepted commits must be present at the end.", "cross-process configuration runs on one thread (fork/lock inheritance artefact otherwise)", "3/C10"),
 "C25": ("E-COMP", COMP, "Every value tree of depth <= 2 over 18 leaves and every WAL record variant over small field alphabets round-trips bit-exactly; every byte string up to the bound over a 14-symbol alphabet, every truncation / byte substitution of real encodings and nesting / count families are decoded in resource-limited child processes and must yield a value or an error.", "512 MiB address-space limit stands in for 'allocates without bound'", "3/C25"),
 "C27": ("E-COMP", COMP, "All pairs of boundary integers, a 65 536-value float sweep (adjacent pairs + all pairs of a subset), all strings / blobs up to the bound over adversarial byte alphabets, booleans: order, equality and prefix-freedom of the encoded keys.", "floats: exhaustive over sign/exponent/top-4 mantissa bits, not all 2^64", "3/C27"),
 "C29": ("E-SCHED+E-SEQ", SCHED + "; quiescent part: explicit-state search over histories", "Quiescent: every history up to the bound, backup, restore, open, dump equal. Concurrent: a backup thread against a writer thread, every schedule with at most the stated number of preemptions; the restored database must open and equal a sequential state within the backup's window.", "a file copy is one atomic step; the non-atomic two-file copy is a recorded known finding", "3/C29"),
 "C35": ("E-SCHED", SCHED, "Every pair (thorough: also triples) of the public operations runs on separate threads of one engine under every schedule with at most the stated number of preemptions; threads are disabled while the lock they want is held; no schedule may reach 'unfinished threads, none enabled', and the accumulated lock-order graph must be acyclic.", "operations are fixed finite bodies; livelock horizon 20 000 points", "3/C35"),
})

NOT_YET = "check under construction in this session (not yet registered)"

def main():
    head = subprocess.run(['git','-C','/repo','log','--format=%h %s'],capture_output=True,text=True).stdout.splitlines()
    hook_commits = [l.split()[0] for l in head if l.split(' ',1)[1].startswith('verif-hooks')]
    checks = []
    for pid,(engine,tech,text,note,ref) in sorted(CHECKS.items()):
        checks.append({
            "property_id": pid,
            "quick_cmd": f"./check {pid} --tier quick",
            "thorough_cmd": f"./check {pid} --tier thorough",
            "evidence_file": f"/verif/evidence/{pid}.json",
            "replay_cmd_template": f"./check {pid} --replay {{path}}",
            "engine": engine,
            "level_claimed": {"category":"model_checking","text":text,"design_ref":f"DESIGN.md section {ref}"},
            "level_note": note,
            "technique": tech,
        })
    m = {
     "version": 1,
     "setup_cmd": "cd /verif/harness && CARGO_NET_OFFLINE=true cargo build --release --offline",
     "hooks": {"guard": "cargo feature `verif-hooks` of nervusdb-storage / nervusdb-query / nervusdb (off by default; helper macros expand to nothing without it)",
               "enable": "the harness crate /verif/harness depends on /repo's crates by path with features=[\"verif-hooks\"]; ./check rebuilds it incrementally before every run",
               "baseline_off_cmd": "/verif/scripts/baseline_off.sh",
               "source_commits": hook_commits, "add_only": True},
     "engines": [
        {"name":"E-SEQ","path":"harness/src/seq.rs","serves_properties":[p for p,v in CHECKS.items() if v[0].startswith("E-SEQ")],"kind_free_text":"explicit-state breadth-first search over operation sequences, real engine as transition function, GraphModel / differential oracles"},
        {"name":"E-SCHED","path":"harness/src/sched.rs","serves_properties":[p for p,v in CHECKS.items() if "E-SCHED" in v[0]],"kind_free_text":"cooperative scheduler over thread-local hooks (lock probes, publication points), deviation-bounded DFS by re-execution"},
        {"name":"E-COMP","path":"harness/src/comp.rs","serves_properties":[p for p,v in CHECKS.items() if v[0].startswith("E-COMP")],"kind_free_text":"exhaustive component-level exploration (codecs, ordered keys, B-tree, HNSW), child-process isolation for decoders"},
        {"name":"E-CRASH","path":"harness/src/crash.rs","serves_properties":[p for p,v in CHECKS.items() if v[0].startswith("E-CRASH")],"kind_free_text":"recorded I/O log -> every crash point, power-loss subsets, single I/O faults, log tails; real recovery on every image"},
     ],
     "checks": checks,
     "notes": "Checks are registered once they are clean on the unchanged tree; genuine defects are either repaired in /repo (fix: commits, listed under 'fixed' in known_findings.json) or listed as findings in known_findings.json.",
     "not_applicable": [{"property_id":p["id"],"reason":NOT_YET} for p in props if p["id"] not in CHECKS],
    }
    json.dump(m, open('/verif/MANIFEST.json','w'), indent=1)
    print("checks:", len(checks), "not_applicable:", len(m["not_applicable"]))
main()
