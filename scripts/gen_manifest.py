#!/usr/bin/env python3
"""Generates /verif/MANIFEST.json from the table below (single source of truth)."""
import json, subprocess
props = [json.loads(l) for l in open('/verif/properties.jsonl')]

SEQ = "explicit-state search: exhaustive breadth-first enumeration of operation sequences on the real engine"
CRASH = "exhaustive crash-point / power-loss image enumeration over a recorded I/O history of the real engine"
FAULT = "exhaustive single-fault injection at every I/O step of the real engine"
TAIL = "exhaustive log-tail mutation enumeration over recorded crash images"

# id -> (engine, technique, level text, level_note, design_ref)
CHECKS = {
 "C04": ("E-SEQ", SEQ, "All enabled histories over the storage alphabet (writes incl. multi-label creates, label add/remove, delete+re-create in one transaction, 513-node batches; Compact, CreateIndex, CloseOpen, DropOpen) up to the depth bound are executed on the real engine; after each history the full dump (all read interfaces, internal ids, multiplicities) is taken, the database is dropped+reopened (1st execution) and closed+reopened (2nd execution) and dumped again; dumps must be equal.", "bounded depth and alphabet (listed in the evidence); node-creation symmetry reduction; histories whose non-reopen step fails are skipped (they belong to other properties)", "3/C04"),
 "C18": ("E-SEQ+monitor", SEQ + " with a page-ownership monitor on every page write", "All enabled histories over node batches of 1/511/512/513/1025 nodes interleaved with property, relationship, vector and index writes, compaction and reopen are executed with a monitor that checks on every page write that the page was allocated to the writing structure; the dump must equal the model, survive reopen, and vacuum's reachability walk must succeed.", "ownership is tracked by structure kind (idmap, btree, blob, csr, catalog)", "3/C18"),
 "C28": ("E-SEQ", SEQ, "All enabled histories (writes, vectors, Compact, CreateIndex, CloseOpen) up to the depth bound; then close, vacuum, open: vacuum must succeed, the dump incl. index lookups and vector search must be unchanged, and a further transaction must commit and survive another reopen.", "differential oracle (same engine before/after vacuum)", "3/C28"),
 "C01": ("E-CRASH", CRASH, "Every history of the crash alphabet up to the bound is run once on the real engine under an I/O recorder; every event index is a crash point; process-death and all enumerated power-loss images are recovered by the real Db::open and the acknowledged counter must survive, also through one continuation commit, a crash at each of its I/O steps and two more reopens. Exhaustive within the stated bounds; the recorded log is validated by replaying it onto empty files and comparing with the real files byte for byte.", "disk model of rt.rs (atomic ordered writes for process death; fsync-only durability with enumerated subsets, 4 KiB sectors, journalled renames for power loss); bounded histories; HashMap iteration order inside one WAL transaction is not controlled", "3/C01"),
 "C02": ("E-CRASH", CRASH, "Same enumeration as C01 with the prefix oracle: the state recovered from every crash image must equal the clean state after some prefix of the operations started so far (full dump through every read interface), and recovery must succeed.", "as C01; reference states are produced by the same engine without crashes (differential)", "3/C02"),
 "C08": ("E-CRASH(fault)", FAULT, "For every history and every counted I/O step k a one-shot EIO is injected at k; the faulted operation must be all-or-nothing live and after reopen, and a later transaction must commit and survive.", "single fault per execution; the seam returns the error instead of performing the effect", "3/C08"),
 "C17": ("E-CRASH(tail)", TAIL, "For every recorded crash image whose cut touches the log, every truncation, every garbage tail of a fixed set and every bit flip behind the last complete transaction is opened with the real code; recovery must equal the clean cut and later commits must survive two reopens.", "tail set is finite and listed in the evidence; tails with a valid checksum over an undecodable body are excluded", "3/C17"),
}

NOT_YET = "check under construction in this session (not yet registered)"

def main():
    head = subprocess.run(['git','-C','/repo','log','--format=%h %s'],capture_output=True,text=True).stdout.splitlines()
    hook_commits = [l.split()[0] for l in head if l.split(' ',1)[1].startswith('verif-hooks')]
    checks = []
    for pid,(engine,tech,text,note,ref) in sorted(CHECKS.items()):
        checks.append({
            "property_id": pid,
            "quick_cmd": f"./check {pid} --tier quick",
            "thorough_cmd": f"./check {pid} --tier thorough",
            "evidence_file": f"/verif/evidence/{pid}.json",
            "replay_cmd_template": f"./check {pid} --replay {{path}}",
            "engine": engine,
            "level_claimed": {"category":"model_checking","text":text,"design_ref":f"DESIGN.md section {ref}"},
            "level_note": note,
            "technique": tech,
        })
    m = {
     "version": 1,
     "setup_cmd": "cd /verif/harness && CARGO_NET_OFFLINE=true cargo build --release --offline",
     "hooks": {"guard": "cargo feature `verif-hooks` of nervusdb-storage / nervusdb-query / nervusdb (off by default; helper macros expand to nothing without it)",
               "enable": "the harness crate /verif/harness depends on /repo's crates by path with features=[\"verif-hooks\"]; ./check rebuilds it incrementally before every run",
               "baseline_off_cmd": "/verif/scripts/baseline_off.sh",
               "source_commits": hook_commits, "add_only": True},
     "engines": [
        {"name":"E-SEQ","path":"harness/src/seq.rs","serves_properties":[p for p,v in CHECKS.items() if v[0].startswith("E-SEQ")],"kind_free_text":"explicit-state breadth-first search over operation sequences, real engine as transition function, GraphModel / differential oracles"},
        {"name":"E-CRASH","path":"harness/src/crash.rs","serves_properties":[p for p,v in CHECKS.items() if v[0].startswith("E-CRASH")],"kind_free_text":"recorded I/O log -> every crash point, power-loss subsets, single I/O faults, log tails; real recovery on every image"},
     ],
     "checks": checks,
     "notes": "Checks are registered once they are clean on the unchanged tree; genuine defects are either repaired in /repo (fix: commits, listed under 'fixed' in known_findings.json) or listed as findings in known_findings.json.",
     "not_applicable": [{"property_id":p["id"],"reason":NOT_YET} for p in props if p["id"] not in CHECKS],
    }
    json.dump(m, open('/verif/MANIFEST.json','w'), indent=1)
    print("checks:", len(checks), "not_applicable:", len(m["not_applicable"]))
main()
