#!/bin/bash
# confirm_seed.sh <seed-dir> <demo-dest-relative-to-repo-root> -- <cargo test args for the demo>
# Confirms in a scratch worktree (never /repo): demo passes without the patch, fails with it,
# and the repository's own suite still passes with the patch.  Prints one JSON line.
set -u
seed="$1"; dest="$2"; shift 3
wt=${CONFIRM_WT:-/tmp/wt-confirm}
tag=$(basename "$wt")
export CARGO_NET_OFFLINE=true
head=$(git -C /repo rev-parse HEAD)
if [ ! -d "$wt" ]; then git -C /repo worktree add -q --detach "$wt" "$head" || exit 2; fi
git -C "$wt" checkout -q --detach "$head" && git -C "$wt" checkout -q -- . && git -C "$wt" clean -qfd -e target
cp "$seed/demo.rs" "$wt/$dest" || exit 2
cd "$wt"
cargo test --offline "$@" >/tmp/confirm.$tag.nopatch.log 2>&1; without=$?
git apply "$seed/patch.diff" || { echo '{"error":"patch does not apply"}'; exit 2; }
cargo test --offline "$@" >/tmp/confirm.$tag.patch.log 2>&1; with=$?
rm -f "$wt/$dest"
suite=$(cargo test --workspace --no-fail-fast --offline 2>&1)
passed=$(echo "$suite" | grep -cE "^test .* \.\.\. ok$")
hard=$(echo "$suite" | grep -E "^test .* \.\.\. FAILED$" | grep -v "test_default_limits_keep_tck_sum_range_case_working" | wc -l)
builderr=$(echo "$suite" | grep -c "^error\[" )
git checkout -q -- . ; git clean -qfd -e target
echo "{\"demo_without_patch_exit\":$without,\"demo_with_patch_exit\":$with,\"suite_passed\":$passed,\"suite_hard_failures\":$hard,\"suite_build_errors\":$builderr,\"repo_head\":\"$head\"}"
