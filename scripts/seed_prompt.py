#!/usr/bin/env python3
"""Prints the prompt given to a seeding sub-agent for property <ID> (only the property text + worktree path)."""
import json,sys
pid=sys.argv[1]; hint=sys.argv[2] if len(sys.argv)>2 else ""
p=[json.loads(l) for l in open('/verif/properties.jsonl') if json.loads(l)['id']==pid][0]
print(f"""You are helping test a verification effort by writing realistic, subtle bugs ("seeded mutations") into a Rust codebase.

Codebase: an embedded Rust property-graph database (nervusdb: WAL / pager / B-tree / CSR storage engine, single-writer snapshot-reader transactions, Cypher parser/planner/executor, C API crate nervusdb-capi). You have your OWN scratch git worktree of it at /tmp/wt-{pid} . Work ONLY inside /tmp/wt-{pid} and /tmp/seed-{pid} (create the latter). Never touch /repo or /verif. NEVER use `git stash` (the stash is shared between worktrees and other people are working in sibling worktrees); to undo your edits use `git checkout -- .` inside your worktree. There is no network; use `cargo ... --offline`. The repository's own test-suite is run with `cd /tmp/wt-{pid} && cargo test --workspace --no-fail-fast --offline` (the `tck_harness` test target fails at baseline because its feature files are missing, and `t341_resource_limits::test_default_limits_keep_tck_sum_range_case_working` is a wall-clock test that fails when the machine is loaded - ignore only those two). The storage crate has a cargo feature `verif-hooks` (module nervusdb-storage/src/verif.rs: thread-local hooks for I/O interposition / fault injection / scheduling points) that you may use in a demonstration if useful, but your change must break the property in a normal build too.

The property that must be BROKEN by your change:

  "{p['title']}. {p['statement']}"
  Quantified over: {p['quantifier']['text']}
  Code it is anchored in: {', '.join(p['anchors']['files'])}
{hint}
Task: produce TWO different, independent changes (patch A and patch B) to the database source (not to tests) such that each one:
 1. still compiles and the existing test-suite still passes (run it to be sure, with the patch applied);
 2. breaks the property above in a way that needs something SPECIFIC to manifest - a particular multi-step sequence of operations, a particular interleaving, an unusual input or boundary value, or two cooperating code sites that each look fine alone. NOT something ordinary use or the simplest possible test would expose at once;
 3. looks like a plausible mistake a developer could make (off-by-one, wrong comparison, reordered steps, a skipped case, a mis-handled boundary, a stale cache, ...).
Make the two patches touch different mechanisms.

For each patch deliver, under /tmp/seed-{pid}/A and /tmp/seed-{pid}/B:
 - patch.diff  (output of `git diff` in the worktree with only that patch applied; must apply cleanly to the worktree's HEAD with `git apply`)
 - demo.rs: a Rust integration-test file that FAILS with the patch applied and PASSES without it, written so that it can be copied to `nervusdb/tests/seed_demo.rs` (crate `nervusdb`, which re-exports the storage/query API; dev-dependency `tempfile` is available) OR to `nervusdb-storage/tests/seed_demo.rs` - say which in README.md together with the exact `cargo test ... --test seed_demo --offline` command.
 - README.md: what the change is, why it breaks the property, exactly what is needed for it to manifest, and the commands you ran (test-suite result with the patch; demo result with and without the patch).

Verify all of this yourself before finishing. Leave the worktree at HEAD with no patch applied (`git checkout -- .`; remove untracked demo files) when done. Final answer: a short summary of the two patches and where the files are.""")
