#!/bin/bash
# run_all.sh [quick|thorough] : runs every registered check once and prints one summary line per check
tier=${1:-quick}
cd /verif || exit 2
for id in $(python3 -c "import json;print(' '.join(c['property_id'] for c in json.load(open('MANIFEST.json'))['checks']))"); do
  t0=$(date +%s)
  out=$(./check $id --tier $tier 2>&1); rc=$?
  t1=$(date +%s)
  echo "$id rc=$rc $((t1-t0))s $(echo "$out" | grep -c '^VIOLATION') violations $(echo "$out" | grep -c '^KNOWN-FINDING') known :: $(echo "$out" | tail -1 | cut -c1-160)"
done
