#!/usr/bin/env python3
"""store_seed.py <seed-dir> <id e.g. C05-A> <property> <confirm-json> <demo cmd> <detected_by json> <needs text>
Copies patch.diff / demo.rs / README into /verif/seeded/<id>/ and writes meta.json."""
import sys, json, shutil, os
src, sid, prop, confirm, democmd, detected, needs = sys.argv[1:8]
dst = f"/verif/seeded/{sid}"
os.makedirs(dst, exist_ok=True)
shutil.copy(f"{src}/patch.diff", f"{dst}/patch.diff")
shutil.copy(f"{src}/demo.rs", f"{dst}/demo.rs")
for r in ("README.md", "README.agent.md"):
    if os.path.exists(f"{src}/{r}"):
        shutil.copy(f"{src}/{r}", f"{dst}/README.agent.md")
c = json.loads(confirm)
meta = {
 "id": sid, "breaks_property": prop, "needs_to_manifest": needs,
 "origin": "written by an independent sub-agent that saw only the property text and its own scratch worktree",
 "confirmed": {
  "how": f"scripts/confirm_seed.sh in scratch worktree /tmp/wt-confirm at repo {c.get('repo_head','')[:7]}: demo copied into the tests directory and run with `{democmd}`; then `cargo test --workspace --no-fail-fast --offline` with the patch applied",
  "demo_without_patch": "pass" if c["demo_without_patch_exit"] == 0 else "FAIL",
  "demo_with_patch": "fail" if c["demo_with_patch_exit"] != 0 else "PASS",
  "repo_suite_with_patch": f"{c['suite_passed']} tests pass, {c['suite_hard_failures']} hard failures (only the baseline-flaky t341 timing test varies)"},
 "detected_by": json.loads(detected),
 "how_checked": "scripts/eval_seed.sh: git -C /repo apply patch.diff; ./check <ID> --tier quick; git -C /repo checkout -- ."}
json.dump(meta, open(f"{dst}/meta.json", "w"), indent=1)
print("stored", dst)
