#!/bin/bash
# eval_seed.sh <patch.diff> <check ids...> : applies the patch to /repo, runs the quick checks, reverts.
set -u
patch="$1"; shift
cd /repo || exit 2
if [ -n "$(git status --porcelain --untracked-files=no)" ]; then echo "repo not clean"; exit 2; fi
git apply "$patch" || { echo "patch does not apply"; exit 2; }
for c in "$@"; do
  out=$(cd /verif && ./check "$c" 2>&1); rc=$?
  first=$(echo "$out" | grep -m1 -A1 "^VIOLATION" | tail -1 | cut -c1-220)
  echo "$c exit=$rc $first"
done
git checkout -- .
