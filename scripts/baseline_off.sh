#!/bin/bash
# Runs the repository's own test-suite with the verification feature OFF (the default build)
# and prints pass/fail counts.  Mirrors the fallback command of /root/.vp/BASELINE.json.
cd /repo || exit 2
out=$(CARGO_NET_OFFLINE=true cargo test --workspace --no-fail-fast --offline 2>&1)
passed=$(echo "$out" | grep -E "^test .* \.\.\. ok$" | wc -l)
failed=$(echo "$out" | grep -E "^test .* \.\.\. FAILED$" | wc -l)
echo "passed=$passed failed=$failed"
echo "$out" | grep -E "^test .* \.\.\. FAILED$"
# tck_harness (harness=false, needs feature files that are not in the tree) fails at baseline too
[ "$failed" -eq 0 ]
