#!/bin/bash
# Runs the repository's own test-suite with the verification feature OFF (the default build)
# and prints pass/fail counts.  Mirrors the fallback command of /root/.vp/BASELINE.json.
cd /repo || exit 2
out=$(CARGO_NET_OFFLINE=true cargo test --workspace --no-fail-fast --offline 2>&1)
passed=$(echo "$out" | grep -E "^test .* \.\.\. ok$" | wc -l)
failed=$(echo "$out" | grep -E "^test .* \.\.\. FAILED$" | wc -l)
echo "passed=$passed failed=$failed"
echo "$out" | grep -E "^test .* \.\.\. FAILED$"
# tck_harness (harness=false, needs feature files that are not in the tree) fails at baseline too and
# is not counted; t341 test_default_limits_keep_tck_sum_range_case_working is listed as flaky in
# /root/.vp/BASELINE.json (timing dependent) and is tolerated.
hard=$(echo "$out" | grep -E "^test .* \.\.\. FAILED$" | grep -v "test_default_limits_keep_tck_sum_range_case_working" | wc -l)
[ "$hard" -eq 0 ]
