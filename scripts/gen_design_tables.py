#!/usr/bin/env python3
"""Regenerates the machine-derived parts of DESIGN.md (between the BEGIN/END GENERATED markers):
 - section 3: one block per property from properties.jsonl, MANIFEST.json, evidence/<id>.json (rule = the
   alphabet / bound / oracle statement the check itself records), known_findings.json and seeded/*/meta.json
 - the seeded-change table and the list of repaired defects.
Hand-written text outside the markers is left alone."""
import json, glob, os, re, subprocess

V = '/verif'
props = {json.loads(l)['id']: json.loads(l) for l in open(f'{V}/properties.jsonl')}
man = json.load(open(f'{V}/MANIFEST.json'))
checks = {c['property_id']: c for c in man['checks']}
kf = json.load(open(f'{V}/known_findings.json'))
seeds = {}
for m in sorted(glob.glob(f'{V}/seeded/*/meta.json')):
    d = json.load(open(m))
    seeds.setdefault(d['breaks_property'], []).append(d)

def ev(pid):
    p = f'{V}/evidence/{pid}.json'
    return json.load(open(p)) if os.path.exists(p) else None

def fmt_int(n):
    return f'{n:,}'.replace(',', ' ')

out = []
out.append('Legend: **rule** is the statement of alphabet, bound and oracle that the check writes into its own evidence file '
           '(so it cannot drift from the code); the numbers are from the last quick run on the clean tree that was committed with this file '
           '(thorough-tier bounds are given in the rule as "(thorough: ...)" or in the manifest).\n')
for pid in sorted(props):
    p = props[pid]
    c = checks.get(pid)
    e = ev(pid)
    out.append(f'### {pid} {p["title"]} — {c["engine"] if c else "not applicable"}\n')
    if not c:
        na = [x for x in man.get('not_applicable', []) if x['property_id'] == pid]
        out.append(f'Not claimed: {na[0]["reason"] if na else "?"}\n')
        continue
    out.append(f'*Technique*: {c["technique"]}.\n')
    if e:
        cov = e['coverage']
        out.append(f'*Rule (alphabet / bound / oracle)*: {cov.get("rule", "").strip()}\n')
        nums = [f'states {fmt_int(cov.get("states", 0))}', f'transitions {fmt_int(cov.get("transitions", 0))}',
                f'executions of the real code validated {fmt_int(cov.get("traces_validated_against_impl", 0))}',
                f'non-trivial cases {fmt_int(cov.get("distinct_nontrivial", 0))}', f'distinct outcomes {cov.get("distinct_outcomes", 0)}',
                f'exhaustive within bounds: {"yes" if cov.get("exhaustive", True) else "NO (cap hit, see evidence)"}', f'{e.get("wall_s", 0):.1f} s']
        out.append(f'*Last {e.get("tier", "quick")} run*: ' + '; '.join(nums) + '.\n')
        if e.get('assumptions'):
            out.append('*Assumptions*: ' + ' / '.join(e['assumptions']) + '\n')
    if c.get('level_note'):
        out.append(f'*Note*: {c["level_note"]}.\n')
    fs = [f for f in kf['findings'] if f['property'] == pid]
    if fs:
        out.append('*Known findings (genuine defects recorded, not repaired)*:\n')
        for f in fs:
            req = ', '.join(f.get('requires', []))
            out.append(f'- class `{f["class"]}`' + (f' requiring `{req}`' if req else '') + f': {f["what"]}')
        out.append('')
    fx = [x for x in kf['fixed'] if f'property={pid} ' in x]
    if fx:
        out.append('*Repaired in /repo (fix: commits)*:\n')
        for x in fx:
            out.append('- ' + x.replace('fixed: property=' + pid + ' ', ''))
        out.append('')
    ss = seeds.get(pid, [])
    if ss:
        out.append('*Seeded changes (independent sub-agents; each passes the repository suite and fails its own demonstration)*:\n')
        for s in ss:
            det = '; '.join(f'{k}: {v}' for k, v in s['detected_by'].items())
            out.append(f'- `{s["id"]}` — needs: {s["needs_to_manifest"]}. ' + (f'Detected by {det}.' if det else '**Not caught by any check.**'))
        out.append('')

sec3 = '\n'.join(out)

# seed table
rows = ['| seed | property | what it needs to manifest | caught by | missed at first? |', '|---|---|---|---|---|']
for pid in sorted(seeds):
    for s in seeds[pid]:
        det = '; '.join(f'{k} ({v.split(";")[0][:90]})' for k, v in s['detected_by'].items()) or '**not caught by any check**'
        missed = 'yes - check strengthened' if any('missed at first' in v for v in s['detected_by'].values()) else 'no'
        rows.append(f'| {s["id"]} | {pid} | {s["needs_to_manifest"][:160]} | {det} | {missed} |')
seedtab = '\n'.join(rows)

fixes = subprocess.run(['git', '-C', '/repo', 'log', '--reverse', '--format=%h %s'], capture_output=True, text=True).stdout.splitlines()
fixlist = '\n'.join('- `' + l.split(' ', 1)[0] + '` ' + l.split(' ', 1)[1] for l in fixes if l.split(' ', 1)[1].startswith('fix:'))
hooklist = '\n'.join('- `' + l.split(' ', 1)[0] + '` ' + l.split(' ', 1)[1] for l in fixes if l.split(' ', 1)[1].startswith('verif-hooks'))

path = f'{V}/DESIGN.md'
s = open(path).read()
def put(s, name, text):
    a = f'<!-- BEGIN GENERATED {name} -->'
    b = f'<!-- END GENERATED {name} -->'
    i, j = s.index(a), s.index(b)
    return s[:i + len(a)] + '\n' + text + '\n' + s[j:]
s = put(s, 'SECTION3', sec3)
s = put(s, 'SEEDS', seedtab)
s = put(s, 'FIXES', fixlist)
s = put(s, 'HOOKS', hooklist)
nfix = sum(1 for l in fixes if l.split(' ', 1)[1].startswith('fix:'))
s = re.sub(r'<!-- NFIX -->\d+<!-- /NFIX -->', f'<!-- NFIX -->{nfix}<!-- /NFIX -->', s)
open(path, 'w').write(s)
print('DESIGN.md regenerated:', len(sec3.splitlines()), 'lines in section 3;', len(rows) - 2, 'seeds;', fixlist.count('\n') + 1, 'fix commits')
